"""Closed-form reference model of the TBR posterior (Kerman 2017, eq. 5), in plain numpy."""
import math

import numpy as np
from scipy import stats


class Ref:
  """OLS of y on x over the pre-period and the cumulative-effect posterior per test day."""

  def __init__(self, x_pre, y_pre, x_test, y_test):
    x_pre = np.asarray(x_pre, dtype=float)
    y_pre = np.asarray(y_pre, dtype=float)
    x_test = np.asarray(x_test, dtype=float)
    y_test = np.asarray(y_test, dtype=float)
    n = len(x_pre)
    self.n = n
    self.xbar = x_pre.mean()
    self.ybar = y_pre.mean()
    dx = x_pre - self.xbar
    self.sxx = float((dx * dx).sum())
    self.degenerate = self.sxx == 0.0      # constant control: the pinv OLS sets the slope to 0
    self.b = 0.0 if self.degenerate else float((dx * (y_pre - self.ybar)).sum()) / self.sxx
    # NB: with a constant control the library's OLS is rank deficient (df = n - 1); callers must not use df /
    # scale of this object then - only the fitted values (pre-period mean) are meaningful.
    self.a = self.ybar - self.b * self.xbar
    self.resid = y_pre - self.a - self.b * x_pre
    self.df = n - 2
    self.sigma2 = float((self.resid ** 2).sum()) / (n - 2)
    self.sigma = math.sqrt(self.sigma2)
    syy = float(((y_pre - self.ybar) ** 2).sum())
    # (numerically) perfect pre-period fit: the residual variance is rounding noise, the posterior scale is
    # meaningless -> callers treat the case as degenerate ("positive residual variance" is presupposed)
    self.zero_resid = (syy == 0.0) or (float((self.resid ** 2).sum()) <= 1e-20 * max(syy, float((y_pre ** 2).sum())))
    self.pred = self.a + self.b * x_test
    self.effect = y_test - self.pred
    self.loc = np.cumsum(self.effect)
    t = np.arange(1, len(x_test) + 1, dtype=float)
    cumdx = np.cumsum(x_test - self.xbar)
    slope_term = 0.0 if self.degenerate else cumdx * cumdx / self.sxx
    self.scale = np.sqrt(self.sigma2 * (t * t / n + slope_term + t))
    self.t = t

  def ppf(self, p, rescale=1.0):
    return rescale * self.loc + rescale * self.scale * stats.t.ppf(p, self.df)

  def prob_gt(self, thr, rescale=1.0):
    return 1.0 - stats.t.cdf((thr - rescale * self.loc) / (rescale * self.scale), self.df)

  def median(self, rescale=1.0):
    return rescale * self.loc


def design_fit(x, y, xt, yt, n_test, sig_level):
  """Independent closed form of TBRMMDiagnostics.tbrfit: (estimate, cihw, sigma, scale)."""
  x = np.asarray(x, dtype=float)
  y = np.asarray(y, dtype=float)
  n = len(x)
  xbar, ybar = x.mean(), y.mean()
  sxx = float(((x - xbar) ** 2).sum())
  b = float(((x - xbar) * (y - ybar)).sum()) / sxx
  a = ybar - b * xbar
  sigma = math.sqrt(float(((y - a - b * x) ** 2).sum()) / (n - 2))
  dx = xt - xbar
  estimate = n_test * ((yt - ybar) - b * dx)
  scale = sigma * math.sqrt(n_test ** 2 / n + (n_test * dx) ** 2 / sxx + n_test)
  return estimate, float(stats.t.ppf(sig_level, n - 2)) * scale, sigma, scale


def design_tests(x, y, n_test, sig_level, min_corr, bb_bound=3.0, dw_range=(1.5, 2.5), aa_threshold=0.2):
  """Independent evaluation of the four design diagnostics (correlation, A/A, Brownian bridge, Durbin-Watson) from
  the two pretest series, in plain numpy. Returns (tests, edge): tests = (corr_ok, aa_ok, bb_ok, dw_ok) with aa_ok
  None when fewer than 3 points remain for the A/A fit; edge = True when some outcome is within rounding of flipping
  (or the series are degenerate), in which case the caller must not judge."""
  x = np.asarray(x, dtype=float)
  y = np.asarray(y, dtype=float)
  n = len(y)
  if np.ptp(x) == 0 or np.ptp(y) == 0:
    return None, True
  dx, dy = x - x.mean(), y - y.mean()
  sxx, syy, sxy = float((dx * dx).sum()), float((dy * dy).sum()), float((dx * dy).sum())
  corr = sxy / math.sqrt(sxx * syy)
  edge = abs(corr - min_corr) < 1e-10 or not abs(corr) < 1 - 1e-12
  b = sxy / sxx
  a = y.mean() - b * x.mean()
  resid = y - a - b * x
  ss = float((resid * resid).sum())
  if ss <= 1e-20 * max(syy, 1e-300):
    return None, True
  sigma = math.sqrt(ss / (n - 2))
  # Brownian bridge: |cumulative standardised residuals| (last one dropped) within bb_bound * sqrt(k (1 - k/n))
  k = np.arange(1, n, dtype=float)
  bounds = bb_bound * np.sqrt(k * (1.0 - k / n))
  cum = np.abs(np.cumsum(resid / sigma)[:-1])
  bb_ok = bool(np.all(cum <= bounds))
  if float(np.min(np.abs(cum - bounds))) < 1e-9 * max(1.0, float(bounds.max())):
    edge = True
  # Durbin-Watson
  d = np.diff(resid)
  dw = float((d * d).sum()) / ss
  dw_ok = dw_range[0] < dw < dw_range[1]
  if min(abs(dw - dw_range[0]), abs(dw - dw_range[1])) < 1e-9:
    edge = True
  # A/A: hold out the last n_test points, fit on the rest, test the held-out "effect"
  n_pre = n - n_test
  if n_pre < 3:
    aa_ok = None
  else:
    xp, yp = x[:n_pre], y[:n_pre]
    if np.ptp(xp) == 0:
      return None, True
    est, cihw, sg, _ = design_fit(xp, yp, float(x[n_pre:].mean()), float(y[n_pre:].mean()), n_test, sig_level)
    lo, hi = min(est - cihw, est + cihw), max(est - cihw, est + cihw)
    scale = max(abs(lo), abs(hi), 1e-300)
    syy_p = float(((yp - yp.mean()) ** 2).sum())
    # an exact fit of the n_pre points (residual s.d. at rounding level: the library's is exactly 0, this one's ~1e-14)
    # is as degenerate as an exact fit of the whole window above: interval and probability are rounding noise
    if min(abs(lo), abs(hi)) < 1e-9 * scale or sg <= 0 or sg * sg * (n_pre - 2) <= 1e-20 * max(syy_p, 1e-300):
      edge = True
      aa_ok = None
    elif lo < 0.0 < hi:
      aa_ok = True
    else:
      m = min(abs(lo), abs(hi))
      tq = cihw / sg
      ps = sg * math.sqrt(1.0 / n_pre + 1.0 / n_test)
      prob = 1.0 - float(stats.t.cdf(tq - m / ps, n_pre - 2)) + float(stats.t.cdf(-tq - m / ps, n_pre - 2))
      aa_ok = prob <= aa_threshold
      if abs(prob - aa_threshold) < 1e-9:
        edge = True
  return (corr >= min_corr, aa_ok, bb_ok, dw_ok), edge
