"""Closed-form reference model of the TBR posterior (Kerman 2017, eq. 5), in plain numpy."""
import math

import numpy as np
from scipy import stats


class Ref:
  """OLS of y on x over the pre-period and the cumulative-effect posterior per test day."""

  def __init__(self, x_pre, y_pre, x_test, y_test):
    x_pre = np.asarray(x_pre, dtype=float)
    y_pre = np.asarray(y_pre, dtype=float)
    x_test = np.asarray(x_test, dtype=float)
    y_test = np.asarray(y_test, dtype=float)
    n = len(x_pre)
    self.n = n
    self.xbar = x_pre.mean()
    self.ybar = y_pre.mean()
    dx = x_pre - self.xbar
    self.sxx = float((dx * dx).sum())
    self.degenerate = self.sxx == 0.0      # constant control: the pinv OLS sets the slope to 0
    self.b = 0.0 if self.degenerate else float((dx * (y_pre - self.ybar)).sum()) / self.sxx
    # NB: with a constant control the library's OLS is rank deficient (df = n - 1); callers must not use df /
    # scale of this object then - only the fitted values (pre-period mean) are meaningful.
    self.a = self.ybar - self.b * self.xbar
    self.resid = y_pre - self.a - self.b * x_pre
    self.df = n - 2
    self.sigma2 = float((self.resid ** 2).sum()) / (n - 2)
    self.sigma = math.sqrt(self.sigma2)
    syy = float(((y_pre - self.ybar) ** 2).sum())
    # (numerically) perfect pre-period fit: the residual variance is rounding noise, the posterior scale is
    # meaningless -> callers treat the case as degenerate ("positive residual variance" is presupposed)
    self.zero_resid = (syy == 0.0) or (float((self.resid ** 2).sum()) <= 1e-20 * max(syy, float((y_pre ** 2).sum())))
    self.pred = self.a + self.b * x_test
    self.effect = y_test - self.pred
    self.loc = np.cumsum(self.effect)
    t = np.arange(1, len(x_test) + 1, dtype=float)
    cumdx = np.cumsum(x_test - self.xbar)
    slope_term = 0.0 if self.degenerate else cumdx * cumdx / self.sxx
    self.scale = np.sqrt(self.sigma2 * (t * t / n + slope_term + t))
    self.t = t

  def ppf(self, p, rescale=1.0):
    return rescale * self.loc + rescale * self.scale * stats.t.ppf(p, self.df)

  def prob_gt(self, thr, rescale=1.0):
    return 1.0 - stats.t.cdf((thr - rescale * self.loc) / (rescale * self.scale), self.df)

  def median(self, rescale=1.0):
    return rescale * self.loc


def design_fit(x, y, xt, yt, n_test, sig_level):
  """Independent closed form of TBRMMDiagnostics.tbrfit: (estimate, cihw, sigma, scale)."""
  x = np.asarray(x, dtype=float)
  y = np.asarray(y, dtype=float)
  n = len(x)
  xbar, ybar = x.mean(), y.mean()
  sxx = float(((x - xbar) ** 2).sum())
  b = float(((x - xbar) * (y - ybar)).sum()) / sxx
  a = ybar - b * xbar
  sigma = math.sqrt(float(((y - a - b * x) ** 2).sum()) / (n - 2))
  dx = xt - xbar
  estimate = n_test * ((yt - ybar) - b * dx)
  scale = sigma * math.sqrt(n_test ** 2 / n + (n_test * dx) ** 2 / sxx + n_test)
  return estimate, float(stats.t.ppf(sig_level, n - 2)) * scale, sigma, scale
