"""Check driver: shards cases over worker subprocesses, aggregates three-valued verdicts,
classifies failures against known_findings.json, writes evidence and replay files.

Usage: ./check <Cxx> [--tier quick|thorough] [--replay FILE] [--cases N] [--jobs N]
Exit: 0 held (KNOWN-FINDING lines allowed) · 1 violated (VIOLATION line) · 2 inconclusive.
"""
import argparse
import collections
import importlib
import json
import os
import shutil
import subprocess
import sys
import time

VERIF_DIR = os.path.dirname(os.path.dirname(os.path.abspath(__file__)))
WORK_DIR = os.environ.get('MMV_WORK_DIR') or os.path.join(VERIF_DIR, '.work')
EVID_DIR = os.path.join(VERIF_DIR, 'evidence')
KNOWN_FILE = os.path.join(VERIF_DIR, 'known_findings.json')
PY = '/venv/bin/python'


def load_known(prop):
  """Open (unrepaired) findings for `prop`, keyed by mechanism."""
  try:
    with open(KNOWN_FILE) as f:
      doc = json.load(f)
  except (OSError, ValueError):
    return {}
  out = {}
  for e in doc.get('findings', []):
    if prop in e.get('properties', [e.get('property')]):
      out[e['key']] = e
  return out


def prop_module(prop):
  return importlib.import_module('mmv.props.' + prop.lower())


def run_workers(prop, tier, seed, n_cases, jobs, workdir, mod, only=None):
  """Runs the worker shards; returns (records, problems)."""
  hash_seeds = getattr(mod, 'HASH_SEEDS', {}).get(tier, [0])
  budget = getattr(mod, 'SHARD_TIMEOUT', {}).get(tier, 1500 if tier == 'quick' else 7200)
  procs = []
  env0 = dict(os.environ)
  env0['PYTHONPATH'] = VERIF_DIR + os.pathsep + env0.get('PYTHONPATH', '')
  env0.setdefault('MMV_MONITORS', '1')
  env0['OMP_NUM_THREADS'] = env0['OPENBLAS_NUM_THREADS'] = env0['MKL_NUM_THREADS'] = '1'
  env0['MPLBACKEND'] = 'Agg'
  for shard in range(jobs):
    out = os.path.join(workdir, 'shard-%02d.jsonl' % shard)
    err = os.path.join(workdir, 'shard-%02d.err' % shard)
    env = dict(env0, PYTHONHASHSEED=str(hash_seeds[shard % len(hash_seeds)]))
    cmd = [PY, '-W', 'ignore', '-m', 'mmv.worker', prop, tier, str(seed), str(shard),
           str(jobs), str(n_cases), out]
    if only is not None:
      cmd.append(','.join(str(i) for i in only))
    procs.append((shard, out, err,
                  subprocess.Popen(cmd, env=env, cwd=VERIF_DIR, stdout=subprocess.DEVNULL,
                                   stderr=open(err, 'w'))))
  problems = []
  deadline = time.time() + budget
  for shard, out, err, p in procs:
    try:
      rc = p.wait(timeout=max(1.0, deadline - time.time()))
    except subprocess.TimeoutExpired:
      p.kill()
      p.wait()
      problems.append('shard %d exceeded the %ds back-stop' % (shard, budget))
      continue
    if rc != 0:
      tail = ''
      try:
        tail = open(err).read()[-1500:]
      except OSError:
        pass
      problems.append('shard %d exited %d: %s' % (shard, rc, tail.strip().replace('\n', ' | ')))
  records = []
  for shard, out, err, p in procs:
    try:
      with open(out) as f:
        for line in f:
          line = line.strip()
          if line:
            records.append(json.loads(line))
    except OSError:
      pass
  records.sort(key=lambda r: r.get('idx', -1))
  return records, problems


def main(argv=None):
  ap = argparse.ArgumentParser()
  ap.add_argument('prop')
  ap.add_argument('--tier', default=os.environ.get('VERIF_TIER') or 'quick',
                  choices=['quick', 'thorough'])
  ap.add_argument('--replay')
  ap.add_argument('--cases', type=int)
  ap.add_argument('--jobs', type=int)
  ap.add_argument('--no-evidence', action='store_true')
  args = ap.parse_args(argv)
  prop = args.prop.upper()
  tier = args.tier
  try:
    seed = int(os.environ.get('VERIF_SEED') or 0)
  except ValueError:
    seed = 0
  t0 = time.time()
  mod = prop_module(prop)

  only = None
  if args.replay:
    with open(args.replay) as f:
      rep = json.load(f)
    tier, seed, only = rep['tier'], rep['seed'], [rep['idx']]
    workdir = os.path.join(WORK_DIR, prop + '-replay')
  else:
    workdir = os.path.join(WORK_DIR, prop)
  shutil.rmtree(workdir, ignore_errors=True)
  os.makedirs(workdir, exist_ok=True)
  replay_dir = os.path.join(workdir, 'replay')
  os.makedirs(replay_dir, exist_ok=True)

  n_cases = args.cases or mod.n_cases(tier)
  jobs = args.jobs or min(16, os.cpu_count() or 1, max(1, n_cases))
  if only is not None:
    jobs = 1
  records, problems = run_workers(prop, tier, seed, n_cases, jobs, workdir, mod, only)

  known = load_known(prop)
  evaluations = 0
  nontrivial_fps = set()
  extra_nontrivial = 0
  counters = collections.Counter()
  classes = collections.Counter()
  outcomes = collections.Counter()
  samples = []
  viols = []        # unlisted
  known_hits = collections.defaultdict(list)
  harness_errors = []
  timeouts = 0
  maxima = {}
  sets = collections.defaultdict(set)
  for r in records:
    if r.get('harness_error'):
      harness_errors.append(r)
      continue
    if r.get('timeout'):
      timeouts += 1
      continue
    evaluations += 1
    if r.get('nontrivial'):
      nontrivial_fps.add(r.get('fp', str(r['idx'])))
    for f_ in r.get('nontrivial_fps') or []:
      nontrivial_fps.add(f_)
    extra_nontrivial += int(r.get('nontrivial_count') or 0)
    for k, v in (r.get('counters') or {}).items():
      counters[k] += v
    for k, v in (r.get('maxima') or {}).items():
      maxima[k] = max(maxima.get(k, v), v)
    for k, v in (r.get('sets') or {}).items():
      sets[k].update(v)
    for c in r.get('classes') or []:
      classes[c] += 1
    if r.get('outcome'):
      outcomes[r['outcome']] += 1
    if r.get('sample') is not None and len(samples) < 4 and (r.get('nontrivial') or r.get('nontrivial_count') or r.get('nontrivial_fps')):
      samples.append(r['sample'])
    for v in r.get('violations') or []:
      v = dict(v, idx=r['idx'])
      if v.get('mech') in known:
        known_hits[v['mech']].append(v)
      else:
        viols.append((r, v))
  if not samples:
    samples = [r['sample'] for r in records if r.get('sample') is not None][:3]

  # ---- verdict
  reasons = list(problems)
  if harness_errors:
    reasons.append('%d harness error(s), first: %s' % (
        len(harness_errors), harness_errors[0]['harness_error'][-600:].replace('\n', ' | ')))
  if timeouts:
    reasons.append('%d case(s) hit the per-case watchdog' % timeouts)
  if only is None:
    minima = getattr(mod, 'MINIMA', {}).get(tier, {})
    for k, need in minima.items():
      if k == 'distinct_nontrivial':
        have = len(nontrivial_fps) + extra_nontrivial
      elif k == 'evaluations':
        have = evaluations
      elif k.startswith('set:'):
        have = len(sets.get(k[4:], ()))
      else:
        have = counters.get(k, 0)
      if have < need:
        reasons.append('monitor coverage too low: %s=%d < %d' % (k, have, need))

  wall = time.time() - t0
  replay_paths = []
  for i, (r, v) in enumerate(viols[:20]):
    path = os.path.join(replay_dir, '%s-case%06d-%d.json' % (prop, r['idx'], i))
    with open(path, 'w') as f:
      json.dump({'property': prop, 'tier': tier, 'seed': seed, 'idx': r['idx'],
                 'violation': v, 'case': r.get('case'), 'sample': r.get('sample'),
                 'repo_dir': os.environ.get('MMV_REPO_DIR', '/repo'),
                 'how': './check %s --replay <this file>' % prop}, f, indent=1, default=str)
    replay_paths.append(path)

  for key, hits in sorted(known_hits.items()):
    print('KNOWN-FINDING: property=%s %s [key=%s; observed %d time(s) this run, e.g. case %d: %s]' % (
        prop, known[key].get('what', key), key, len(hits), hits[0]['idx'],
        str(hits[0].get('detail', ''))[:160]))

  if viols:
    status = 'violated'
  elif reasons:
    status = 'inconclusive'
  else:
    status = 'held'

  if only is None and not args.no_evidence:
    cov = {
        'evaluations': evaluations,
        'distinct_nontrivial': len(nontrivial_fps) + extra_nontrivial,
        'rule': getattr(mod, 'RULE', ''),
        'samples': samples,
        'exhaustive': bool(getattr(mod, 'EXHAUSTIVE', {}).get(tier, False)),
        'monitor_counters': dict(sorted(counters.items())),
        'maxima': maxima,
        'distinct_sets': {k: len(v) for k, v in sorted(sets.items())},
        'input_classes': dict(sorted(classes.items())),
        'outcomes': dict(sorted(outcomes.items())),
        'known_finding_hits': {k: len(v) for k, v in known_hits.items()},
        'inconclusive_reasons': reasons,
        'verdict': status,
        'jobs': jobs,
        'repo_dir': os.environ.get('MMV_REPO_DIR', '/repo'),
    }
    if hasattr(mod, 'summarize'):
      try:
        cov.update(mod.summarize(records) or {})
      except Exception as e:  # pylint: disable=broad-except
        cov['summarize_error'] = repr(e)
    ev = {
        'property_id': prop, 'tier': tier, 'seed': seed,
        'level': getattr(mod, 'LEVEL', 'exploration'),
        'coverage': cov,
        'assumptions': getattr(mod, 'ASSUMPTIONS', []),
        'wall_s': round(wall, 2),
        'violations': len(viols),
    }
    os.makedirs(EVID_DIR, exist_ok=True)
    tmp = os.path.join(EVID_DIR, prop + '.json.tmp')
    with open(tmp, 'w') as f:
      json.dump(ev, f, indent=1, default=str)
    os.replace(tmp, os.path.join(EVID_DIR, prop + '.json'))

  summary = '%s tier=%s seed=%d cases=%d nontrivial=%d wall=%.1fs' % (
      prop, tier, seed, evaluations, len(nontrivial_fps) + extra_nontrivial, wall)
  if status == 'violated':
    seen = collections.Counter()
    for (r, v) in viols:
      seen[(v.get('clause'), v.get('mech'))] += 1
    shown = set()
    for (r, v) in viols:
      tag = (v.get('clause'), v.get('mech'))
      if tag in shown or len(shown) >= 15:
        continue
      shown.add(tag)
      print('  [%dx]' % seen[tag], end='')
      print('  violation case=%d clause=%s mech=%s: %s' % (
          r['idx'], v.get('clause'), v.get('mech'), str(v.get('detail', ''))[:300]))
    if reasons:
      print('  (also inconclusive for: %s)' % '; '.join(reasons)[:600])
    print('VIOLATION property=%s replay=%s' % (prop, replay_paths[0]))
    print('violated: %s unlisted_violations=%d' % (summary, len(viols)))
    return 1
  if status == 'inconclusive':
    print('INCONCLUSIVE property=%s reason=%s' % (prop, '; '.join(reasons)[:1500]))
    return 2
  print('held: %s counters=%s' % (summary, json.dumps(dict(sorted(counters.items())))[:600]))
  return 0


if __name__ == '__main__':
  sys.exit(main())
