"""Runtime probes, installed in place on the primary classes of the tree under test.

P-HEAP   HeapDict.push / get_result : shadow per-key model, online top-k check
P-DIAG   TBRMMDiagnostics           : icontract class invariant "no stale cache slot"
P-DATA   TBRMMData.aggregate_*      : which index sets were aggregated (states seen)
P-IMPACT TBRMMDiagnostics.estimate_required_impact : (n, corr, result) events

All probes are single-threaded like the code they observe; their state lives on the
observed object (or in a module-level sink reset per case) and is updated inside the
same wrapper call. Every probe counts its evaluations.
"""
import collections
import functools
import os

import numpy as np

from mmv import bootstrap

ENABLED = os.environ.get(bootstrap.GUARD, '1') != '0'

COUNTS = collections.Counter()      # evaluations per probe
EVENTS = collections.defaultdict(list)   # per-case sinks, cleared by reset()
ALARMS = []                         # online monitor alarms (dicts), cleared by reset()


def reset():
  EVENTS.clear()
  del ALARMS[:]


def counts_snapshot():
  return dict(COUNTS)


# --------------------------------------------------------------------------- P-HEAP

def _equiv(a, b):
  """Equal under the items' own ordering (only __lt__ is assumed)."""
  return (not (a < b)) and (not (b < a))


def heap_model(pushed, k):
  """Reference: the k largest of `pushed` in descending order (stable)."""
  if k <= 0:
    return []
  return sorted(pushed, reverse=True)[:k]


def check_heap_result(shadow, size, result, where):
  """Compares a get_result() value with the per-key sorted-list model. Returns alarms."""
  alarms = []
  if set(result.keys()) != set(shadow.keys()):
    alarms.append({'clause': 'keys', 'detail': '%s: keys %r != pushed keys %r' % (
        where, sorted(map(str, result.keys())), sorted(map(str, shadow.keys())))})
    return alarms
  for key, pushed in shadow.items():
    got = result[key]
    want = heap_model(pushed, size)
    if len(got) != len(want):
      alarms.append({'clause': 'length', 'detail': '%s: key %r holds %d items, model %d (k=%r, pushed %d)' % (
          where, key, len(got), len(want), size, len(pushed))})
      continue
    ids = collections.Counter(id(p) for p in pushed)
    gids = collections.Counter(id(g) for g in got)
    if any(gids[i] > ids.get(i, 0) for i in gids):
      alarms.append({'clause': 'foreign-item', 'detail': '%s: key %r returns an item never pushed (or twice)' % (where, key)})
      continue
    for i in range(len(got) - 1):
      if got[i] < got[i + 1]:
        alarms.append({'clause': 'order', 'detail': '%s: key %r not descending at position %d' % (where, key, i)})
        break
    for i, (g, w) in enumerate(zip(got, want)):
      if not _equiv(g, w):
        alarms.append({'clause': 'top-k', 'detail': '%s: key %r position %d differs from the k largest pushed (k=%r, pushed %d)' % (
            where, key, i, size, len(pushed))})
        break
  return alarms


def install_heap():
  """P-HEAP: wraps HeapDict in place."""
  hd = bootstrap.mm('heapdict').HeapDict
  if getattr(hd, '_mmv_probe', False):
    return
  orig_init, orig_push, orig_get = hd.__init__, hd.push, hd.get_result

  @functools.wraps(orig_init)
  def init(self, *a, **k):
    orig_init(self, *a, **k)
    self._mmv_shadow = collections.OrderedDict()

  @functools.wraps(orig_push)
  def push(self, key, item):
    out = orig_push(self, key, item)
    if not hasattr(self, '_mmv_shadow'):
      self._mmv_shadow = collections.OrderedDict()
    self._mmv_shadow.setdefault(key, []).append(item)
    COUNTS['heap_push'] += 1
    EVENTS['heap_push'].append((key, item))
    return out

  @functools.wraps(orig_get)
  def get_result(self):
    res = orig_get(self)
    COUNTS['heap_read'] += 1
    shadow = getattr(self, '_mmv_shadow', None)
    if shadow is not None:
      alarms = check_heap_result(shadow, self._size, res, 'get_result')
      res2 = orig_get(self)
      if (set(res2.keys()) != set(res.keys()) or any(
          len(res2[k]) != len(res[k]) or any(a is not b for a, b in zip(res2[k], res[k]))
          for k in res)):
        alarms.append({'clause': 'read-changes-state', 'detail': 'second read differs from the first'})
      for a in alarms:
        a['probe'] = 'P-HEAP'
        ALARMS.append(a)
    return res

  hd.__init__, hd.push, hd.get_result = init, push, get_result
  hd._mmv_probe = True


# --------------------------------------------------------------------------- P-DATA / P-IMPACT

def install_data():
  cls = bootstrap.mm('tbrmmdata').TBRMMData
  if getattr(cls, '_mmv_probe', False):
    return
  o_ts, o_sh = cls.aggregate_time_series, cls.aggregate_geo_share

  @functools.wraps(o_ts)
  def aggregate_time_series(self, geo_indices):
    COUNTS['agg_ts'] += 1
    EVENTS['agg_ts'].append(frozenset(geo_indices))
    return o_ts(self, geo_indices)

  @functools.wraps(o_sh)
  def aggregate_geo_share(self, geo_indices):
    COUNTS['agg_share'] += 1
    EVENTS['agg_share'].append(frozenset(geo_indices))
    return o_sh(self, geo_indices)

  cls.aggregate_time_series, cls.aggregate_geo_share = aggregate_time_series, aggregate_geo_share
  cls._mmv_probe = True


def install_impact():
  cls = bootstrap.mm('tbrmmdiagnostics').TBRMMDiagnostics
  if getattr(cls, '_mmv_probe_impact', False):
    return
  o = cls.estimate_required_impact

  @functools.wraps(o)
  def estimate_required_impact(self, corr):
    out = o(self, corr)
    COUNTS['impact_est'] += 1
    EVENTS['impact_est'].append((len(self.y), float(corr), float(out)))
    return out

  cls.estimate_required_impact = estimate_required_impact
  cls._mmv_probe_impact = True


# --------------------------------------------------------------------------- P-DIAG

class StaleCache(Exception):
  """A cache slot of a TBRMMDiagnostics object disagrees with a fresh recomputation."""


def _same(a, b):
  """NaN-aware, array-aware, namedtuple-aware exact equality."""
  if a is None or b is None:
    return a is None and b is None
  if isinstance(a, tuple) or isinstance(b, tuple):
    if not (isinstance(a, tuple) and isinstance(b, tuple)) or len(a) != len(b):
      return False
    return all(_same(x, y) for x, y in zip(a, b))
  if isinstance(a, np.ndarray) or isinstance(b, np.ndarray):
    a, b = np.asarray(a), np.asarray(b)
    return a.shape == b.shape and bool(np.array_equal(a, b, equal_nan=True))
  try:
    if a != a and b != b:
      return True
  except Exception:  # pylint: disable=broad-except
    pass
  try:
    return bool(a == b)
  except Exception:  # pylint: disable=broad-except
    return False


same = _same

DIAG_SLOTS = [('_corr', 'corr'), ('_required_impact', 'required_impact'),
              ('_pretestfit', 'pretestfit'), ('_aatest', 'aatest'),
              ('_bbtest', 'bbtest'), ('_dwtest', 'dwtest'), ('_tests_ok', 'tests_ok'),
              ('_x_mean', None), ('_y_mean', None)]

DIAG_STATE = {'depth': 0, 'last_stale': None}


def fresh_diag(y, x, par):
  """A pristine (shadow-class) diagnostics object holding the same series/parameters."""
  sh = bootstrap.shadow()
  d = sh.tbrmmdiagnostics.TBRMMDiagnostics(y, par)
  if x is not None:
    d.x = x
  return d


def stale_slots(obj):
  """Names of non-None cache slots of `obj` that a fresh object would not reproduce."""
  y, x, par = obj._y, obj._x, obj._par
  if y is None or par is None:
    return []
  try:
    fresh = fresh_diag(y, x, par)
  except Exception:  # pylint: disable=broad-except
    return []
  bad = []
  for slot, prop in DIAG_SLOTS:
    cur = getattr(obj, slot, None)
    if prop is None:
      want = getattr(fresh, slot, None)
      if not _same(cur, want):
        bad.append(slot)
      continue
    if cur is None:
      continue
    try:
      want = getattr(fresh, prop)
    except Exception:  # pylint: disable=broad-except
      continue
    if not _same(cur, want):
      bad.append(slot)
  return bad


def diag_cache_fresh(self):
  """icontract invariant: every non-None cache slot equals a pristine recomputation."""
  if DIAG_STATE['depth']:
    return True
  DIAG_STATE['depth'] += 1
  try:
    COUNTS['diag_invariant'] += 1
    bad = stale_slots(self)
    if bad:
      DIAG_STATE['last_stale'] = bad
      return False
    return True
  finally:
    DIAG_STATE['depth'] -= 1


def install_diag():
  """P-DIAG: icontract class invariant on the primary TBRMMDiagnostics (in place)."""
  import icontract  # pylint: disable=g-import-not-at-top
  mod = bootstrap.mm('tbrmmdiagnostics')
  cls = mod.TBRMMDiagnostics
  if getattr(cls, '_mmv_probe_diag', False):
    return cls
  bootstrap.shadow()
  new = icontract.invariant(diag_cache_fresh, error=StaleCache)(cls)
  new._mmv_probe_diag = True
  return new
