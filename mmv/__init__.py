"""mmv: runtime-monitoring machinery for google/matched_markets (see /verif/DESIGN.md)."""
