"""Locate the repository under test and make it (and icontract) importable.

The tree under test is MMV_REPO_DIR (default /repo). It is put *first* on sys.path so
that it wins over the /venv editable install (which also points at /repo); nothing is
cached between runs, so edits to the tree are picked up by the next check.
"""
import importlib
import os
import subprocess
import sys
import types
import warnings

VERIF_DIR = os.path.dirname(os.path.dirname(os.path.abspath(__file__)))
DEPS_DIR = os.path.join(VERIF_DIR, '.deps')
REPO_DIR = os.path.abspath(os.environ.get('MMV_REPO_DIR', '/repo'))
# Harness-side guard: monitors are installed only when this is on (default on for checks).
GUARD = 'MMV_MONITORS'

METHOD_MODULES = [
    'common_classes', 'geoeligibility', 'heapdict', 'semantics', 'tbr', 'tbr_iroas',
    'tbrdiagnostics', 'tbrmatchedmarkets', 'tbrmmdata', 'tbrmmdesign',
    'tbrmmdesignparameters', 'tbrmmdiagnostics', 'tbrmmscore', 'utils',
]

_ready = False


def ensure_deps():
  """Installs icontract into /verif/.deps from the offline wheelhouse if missing."""
  if DEPS_DIR not in sys.path:
    sys.path.insert(1, DEPS_DIR)
  try:
    import icontract  # noqa: F401  pylint: disable=unused-import,g-import-not-at-top
    return
  except ImportError:
    pass
  os.makedirs(DEPS_DIR, exist_ok=True)
  subprocess.run(
      ['/venv/bin/pip', 'install', '--quiet', '--no-index', '--find-links',
       '/opt/veriftools/wheels', '--target', DEPS_DIR, 'icontract', 'asttokens',
       'typing_extensions', 'six'],
      check=False, stdout=subprocess.DEVNULL, stderr=subprocess.DEVNULL,
      env=dict(os.environ, PIP_NO_INDEX='1'))
  importlib.invalidate_caches()


def setup():
  """Makes `matched_markets` resolve to the tree under test. Idempotent."""
  global _ready
  if _ready:
    return
  warnings.filterwarnings('ignore')
  os.environ.setdefault('MPLBACKEND', 'Agg')
  if not os.path.isdir(os.path.join(REPO_DIR, 'matched_markets')):
    raise ImportError('no matched_markets package under %s' % REPO_DIR)
  sys.path[:] = [p for p in sys.path if os.path.abspath(p or '.') != REPO_DIR]
  sys.path.insert(0, REPO_DIR)
  ensure_deps()
  import matched_markets  # pylint: disable=g-import-not-at-top
  got = os.path.dirname(os.path.dirname(os.path.abspath(matched_markets.__file__)))
  if got != REPO_DIR:
    raise ImportError('matched_markets resolved to %s, wanted %s' % (got, REPO_DIR))
  np = importlib.import_module('numpy')
  np.seterr(all='ignore')
  _ready = True


def mm(name):
  """Returns the (primary, possibly instrumented) repository module `name`."""
  setup()
  return importlib.import_module('matched_markets.methodology.' + name)


_shadow = None


def shadow():
  """A second, pristine copy of the repository modules (never instrumented).

  The modules are re-imported from the same source files under a private module table:
  the primary entries are taken out of sys.modules, the package is imported again, the
  fresh modules are stashed in a namespace, and the primary entries are put back. The
  shadow modules refer to each other through the globals bound at import time, so they
  keep working after the swap and share no class objects with the primary copy.
  """
  global _shadow
  if _shadow is not None:
    return _shadow
  setup()
  for m in METHOD_MODULES:       # make sure primaries exist first
    importlib.import_module('matched_markets.methodology.' + m)
  saved = {k: v for k, v in sys.modules.items()
           if k == 'matched_markets' or k.startswith('matched_markets.')}
  for k in saved:
    del sys.modules[k]
  ns = types.SimpleNamespace()
  try:
    for m in METHOD_MODULES:
      setattr(ns, m, importlib.import_module('matched_markets.methodology.' + m))
  finally:
    for k in [k for k in sys.modules
              if k == 'matched_markets' or k.startswith('matched_markets.')]:
      del sys.modules[k]
    sys.modules.update(saved)
  _shadow = ns
  return ns
