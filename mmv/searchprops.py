"""Clause evaluators shared by the search properties (C01-C04, C13)."""
import math

import numpy as np

from mmv import gen
from mmv import searchlab as sl
from mmv import tbrref
from mmv import util


INFO = {}


def V(clause, mech, detail):
  return {'clause': clause, 'mech': mech, 'detail': detail}


def search_failed(rec, which, cls=''):
  """A search that raises is not judged by C01-C04 (C09 owns totality); returns a tag."""
  o = rec['outcome']
  return '%s:%s' % (which, o.exc_type)


# ------------------------------------------------------------------------------ C01

def c01_clauses(case, truth, rec, which):
  out = []
  ds = rec['designs'] or []
  for pos, nd in enumerate(ds):
    for msg in sl.legality_violations(truth, nd):
      mech = 'legal:' + msg.split(' ')[0] + ':' + ('must-include-dropped' if 'may not be excluded' in msg else msg.split(' ')[1])
      if 'may not be excluded' in msg:
        gid = msg.split("'")[1]
        adm = rec.get('admitted')
        nmax = truth.kw.get('n_geos_max')
        if adm is not None and gid not in adm and nmax is not None:
          mech = 'legal:must-include-geo-lost-by-n_geos_max-truncation'
        else:
          mech = 'legal:must-include-geo-omitted'
      out.append(V('legality', mech, '%s_search design #%d T=%s C=%s: %s' % (which, pos, nd['t'], nd['c'], msg)))
    if any(t != 'str' for t in nd['t_raw_types']):
      out.append(V('id-type', 'legal:ids-not-strings', '%s_search design #%d reports geos of type %s' % (which, pos, nd['t_raw_types'])))
  return out


def c01_admitted(case, truth, rec):
  """Observed geos_within_constraints vs the independent model of the documented pre-selection."""
  out = []
  adm = rec.get('admitted')
  if adm is None:
    return out, False
  model, info = truth.admitted_model()
  if model is None:
    return out, False
  if set(adm) != model:
    out.append(V('admitted-set', 'admitted-set-mismatch',
                 'geos_within_constraints=%s, model (assignable - too large - over budget + must-include, top n_geos_max by impact)=%s' % (
                     sorted(adm), sorted(model))))
  return out, True


# ------------------------------------------------------------------------------ C02

def c02_clauses(case, truth, rec, which):
  out = []
  ds = rec['designs'] or []
  adm = rec.get('admitted')
  edge = 0
  for pos, nd in enumerate(ds):
    for name, status, detail in sl.constraint_report(truth, nd, adm, exhaustive=(which == 'exhaustive')):
      if status == 'violated':
        out.append(V('constraint:' + name, '%s:%s-violated' % (which, name),
                     '%s_search design #%d T=%s C=%s: %s' % (which, pos, nd['t'], nd['c'], detail)))
      elif status == 'ok-on-edge':
        edge += 1
  return out, edge


def on_bound_counts(truth, ds):
  """How many returned designs sit exactly on an integer-valued bound."""
  kw = truth.kw
  n = 0
  for nd in ds:
    T, C = len(nd['t']), len(nd['c'])
    tr, cr, gt = kw.get('treatment_geos_range'), kw.get('control_geos_range'), kw.get('geo_ratio_tolerance')
    if tr is not None and T in tr:
      n += 1
    if cr is not None and C in cr:
      n += 1
    if gt is not None and T:
      lo, hi = sl.ratio_bounds(gt)
      if sl.Fraction(C, T) in (lo, hi):
        n += 1
  return n


def binding_constraints(truth, admitted):
  """Names of specified constraints for which the unconstrained design space over the admitted
  geos holds both satisfying and violating candidates."""
  pairs, _ = sl.enumerate_assignments(truth, admitted, check_sizes=False)
  seen = {}
  for T, C in pairs[:3000]:
    for name, status, _ in sl.constraint_report(truth, {'t': list(T), 'c': list(C)}, admitted, True):
      s = seen.setdefault(name, set())
      s.add('bad' if status == 'violated' else 'good')
  return sorted(n for n, s in seen.items() if s >= {'good', 'bad'})


# ------------------------------------------------------------------------------ C03

def c03_clauses(case, truth, rec, par):
  """Exhaustive result vs the independent brute force. Returns (violations, info)."""
  out = []
  ds = rec['designs']
  adm = rec['admitted']
  info = {'nontrivial': False}
  k = truth.kw['n_designs']
  bf = sl.brute_force(truth, adm, par)
  feas = bf['feasible']
  info['feasible'] = len(feas)
  info['assignments'] = bf['n_assignments']
  info['omittable'] = sum(1 for f in feas if f['omittable'])
  info['ambiguous'] = sum(1 for f in feas if f['ambiguous'])
  if any(sl.has_nan(f['score']) for f in feas) or any(sl.has_nan(d['score']) for d in ds):
    info['skipped'] = 'nan-score'
    return out, info
  must = [f for f in feas if not f['omittable'] and not f['ambiguous']]
  feas_map = {(tuple(f['t']), tuple(f['c'])): f for f in feas}
  unscorable = {(tuple(T), tuple(C)) for T, C in bf.get('unscorable', [])}
  keys = [sl.design_key(d) for d in ds]
  if len(set(keys)) != len(keys):
    out.append(V('distinct', 'exh:duplicate-designs', 'exhaustive_search returned duplicate designs: %s' % keys))
  if len(ds) > k:
    out.append(V('cap', 'exh:more-than-k', 'returned %d designs with n_designs=%d' % (len(ds), k)))
  # (a) enough designs
  if len(ds) < min(k, len(must)):
    out.append(V('count', 'exh:too-few-designs',
                 'returned %d designs, n_designs=%d, but %d feasible non-omittable designs exist (e.g. T=%s C=%s)' % (
                     len(ds), k, len(must), must[0]['t'], must[0]['c'])))
  # returned designs must be feasible (cross-check of C01/C02 through the design space)
  for pos, d in enumerate(ds):
    if sl.design_key(d) not in feas_map and sl.design_key(d) not in unscorable:
      out.append(V('feasible', 'exh:infeasible-design-returned',
                   'design #%d T=%s C=%s is not in the feasible design space of the oracle' % (pos, d['t'], d['c'])))
  # (c) order
  for i in range(len(ds) - 1):
    if ds[i]['score'] < ds[i + 1]['score']:
      out.append(V('order', 'exh:not-best-first', 'score increases at position %d: %r < %r' % (i, ds[i]['score'], ds[i + 1]['score'])))
      break
  # scores as reported must match the oracle's scores for the same groups
  for pos, d in enumerate(ds):
    f = feas_map.get(sl.design_key(d))
    if f is not None and not f['ambiguous']:
      a, b = d['score'], f['score']
      if a[:4] != b[:4] or not util.close(a[4], b[4], rtol=0, atol=1e-12) or not util.close(a[5], b[5], rtol=1e-7):
        out.append(V('score', 'exh:score-mismatch', 'design #%d T=%s C=%s reports score %r, oracle %r' % (pos, d['t'], d['c'], a, b)))
  # (b) nothing better left outside
  if ds:
    worst = ds[-1]['score']
    got = set(keys)
    for f in must:
      key = (tuple(f['t']), tuple(f['c']))
      if key not in got and worst < f['score'] and not _near(worst, f['score']):
        out.append(V('optimality', 'exh:better-design-omitted',
                     'feasible design T=%s C=%s scores %r, strictly higher than the worst returned %r' % (f['t'], f['c'], f['score'], worst)))
        break
  # (d) container vs pushes: P-HEAP alarms
  for a in rec.get('alarms') or []:
    out.append(V('heap:' + a['clause'], 'exh:heap-' + a['clause'], a['detail']))
  pushes = len(rec['events'].get('heap_push', []))
  info['pushes'] = pushes
  ties = len(feas) > k and len({f['score'] for f in feas}) < len(feas)
  info['nontrivial'] = bool(len(feas) > k or info['omittable'] or ties)
  info['pruned'] = info['omittable'] > 0
  return out, info


NEAR_RTOL = [1e-9]     # relative difference of the last score entry below which two scores count as tied (float noise);
                       # a case whose panel is known to be well conditioned may lower it for its own comparisons


def _near(a, b):
  """Scores equal up to float noise in the continuous entries (treated as a tie)."""
  if a[:4] != b[:4]:
    return False
  if abs(a[4] - b[4]) > 1e-12:
    return False
  return util.close(a[5], b[5], rtol=NEAR_RTOL[0])


# ------------------------------------------------------------------------------ C04

def c04_clauses(case, truth, rec, which, par):
  out = []
  n_checked = 0
  budget_scoring = which == 'exhaustive'
  for pos, nd in enumerate(rec['designs'] or []):
    if nd.get('x') is None or not nd['t'] or not nd['c']:
      out.append(V('diag', which + ':diag-missing', 'design #%d has no diagnostics / control series' % pos))
      continue
    if any(gid not in truth.window for gid in nd['t'] + nd['c']):
      out.append(V('ids', which + ':design-geo-not-in-data', 'design #%d reports geos that are not in the data: T=%s C=%s' % (pos, nd['t'], nd['c'])))
      continue
    try:
      rc = sl.recompute(truth, nd, par, budget_scoring=budget_scoring)
    except ValueError as e:
      out.append(V('recompute', which + ':design-not-recomputable', 'design #%d T=%s C=%s cannot be recomputed from its reported geos: %s' % (pos, nd['t'], nd['c'], e)))
      continue
    n_checked += 1
    tolg = 1e-12 * max(1, len(nd['t']) + len(nd['c']))
    scale = float(np.abs(rc['y']).max()) + 1e-300
    if nd['y'].shape != rc['y'].shape or not np.allclose(nd['y'], rc['y'], rtol=tolg, atol=tolg * scale):
      out.append(V('series-y', which + ':diag-y-not-sum-of-reported-treatment-geos',
                   'design #%d T=%s: diag.y differs from the sum of those geos over the last %d dates' % (pos, nd['t'], truth.n)))
      continue
    scale = float(np.abs(rc['x']).max()) + 1e-300
    if nd['x'].shape != rc['x'].shape or not np.allclose(nd['x'], rc['x'], rtol=tolg, atol=tolg * scale):
      out.append(V('series-x', which + ':diag-x-not-sum-of-reported-control-geos',
                   'design #%d C=%s: diag.x differs from the sum of those geos over the last %d dates' % (pos, nd['c'], truth.n)))
      continue
    if not util.close(nd['corr'], rc['corr'], rtol=1e-9, atol=1e-12):
      out.append(V('corr', which + ':corr-mismatch', 'design #%d corr %r, recomputed %r' % (pos, nd['corr'], rc['corr'])))
    if not util.close(nd['impact'], rc['impact'], rtol=1e-7):
      out.append(V('impact', which + ':impact-mismatch', 'design #%d required_impact %r, recomputed %r' % (pos, nd['impact'], rc['impact'])))
    # independent closed form for the required impact (referee for the shared formula)
    if np.ptp(rc['x']) > 0 and np.ptp(rc['y']) > 0 and abs(rc['corr']) < 0.999999:
      ref = truth.req_impact(nd['t'], nd['c'])
      if not util.close(nd['impact'], ref, rtol=1e-6):
        out.append(V('impact-closed-form', which + ':impact-vs-closed-form', 'design #%d required_impact %r, closed form %r' % (pos, nd['impact'], ref)))
    if np.ptp(rc['x']) == 0 and len(nd['tests']) == 4:
      # documented: "if the regression fit was not possible, the [Brownian bridge] test fails" - a constant control
      # series admits no fit
      INFO['constant_control_designs'] = INFO.get('constant_control_designs', 0) + 1
      if _b(nd['tests'][2]) is not False:
        out.append(V('tests-constant-control', which + ':bb-test-passes-without-a-fit',
                     'design #%d T=%s C=%s: the control series is constant over the window (no regression fit possible) but the Brownian-bridge test is reported as %r' % (
                         pos, nd['t'], nd['c'], nd['tests'][2])))
    if sl.score_knife_edge(rc):
      continue
    if tuple(map(_b, nd['tests'])) != tuple(map(_b, rc['tests'])):
      out.append(V('tests', which + ':tests-mismatch', 'design #%d test outcomes %r, recomputed %r' % (pos, nd['tests'], rc['tests'])))
    # referee written in plain numpy (independent of the diagnostics class of the tree under test)
    ref_tests, edge = tbrref.design_tests(rc['x'], rc['y'], truth.n_test, truth.sig, truth.kw.get('min_corr', 0.8))
    if ref_tests is not None and not edge:
      INFO['referee_tests'] = INFO.get('referee_tests', 0) + 1
      if tuple(map(_b, nd['tests'])) != tuple(map(_b, ref_tests)):
        out.append(V('tests-referee', which + ':tests-vs-independent-referee',
                     'design #%d T=%s C=%s test outcomes (corr, A/A, BB, DW) %r, independent evaluation from the two series %r' % (
                         pos, nd['t'], nd['c'], tuple(map(_b, nd['tests'])), tuple(map(_b, ref_tests)))))
    a, b = nd['score'], rc['score']
    if (a[:4] != b[:4] or not util.close(a[4], b[4], rtol=0, atol=1e-12) or not util.close(a[5], b[5], rtol=1e-7)):
      mech = which + ':score-mismatch'
      if a[:5] == b[:5] or (a[:4] == b[:4] and util.close(a[4], b[4], rtol=0, atol=1e-12)):
        mech = which + ':score-last-entry'
      out.append(V('score', mech, 'design #%d score %r, recomputed from its own geos %r' % (pos, a, b)))
    # the score must also agree with the design's own diagnostics
    want_last = (truth.kw['budget_range'][1] / nd['impact']) if (budget_scoring and truth.kw.get('budget_range')) else 1.0 / nd['impact']
    if not util.close(a[5], want_last, rtol=1e-9):
      out.append(V('score-vs-diag', which + ':score-last-entry', 'design #%d last score entry %r, wanted %r from its diag' % (pos, a[5], want_last)))
  return out, n_checked


def _b(v):
  return None if v is None else bool(v)


# ------------------------------------------------------------------------------ C13

def c13_clauses(case, truth, grec, erec_full, par):
  """Greedy designs must belong to the exhaustive search's full ranked set."""
  out = []
  info = {}
  g = grec['designs'] or []
  e = erec_full['designs'] or []
  eset = {sl.design_key(d): d for d in e}
  info['exhaustive_full'] = len(e)
  if g and not e:
    out.append(V('empty', 'greedy:nonempty-while-exhaustive-empty',
                 'greedy_search returned %d designs (first T=%s C=%s) but exhaustive_search with unbounded n_designs found none' % (
                     len(g), g[0]['t'], g[0]['c'])))
    return out, info
  best = e[0]['score'] if e else None
  for pos, d in enumerate(g):
    if sl.has_nan(d['score']):
      # an undefined score cannot be ranked, but the design still has to be one the exhaustive search considers
      if sl.design_key(d) not in eset and len(e) < 100000:
        out.append(V('membership', 'greedy:design-not-in-exhaustive-set',
                     'greedy design #%d T=%s C=%s (undefined score) is not among the %d designs ranked by the exhaustive search' % (pos, d['t'], d['c'], len(e))))
      continue
    if sl.design_key(d) not in eset:
      out.append(V('membership', 'greedy:design-not-in-exhaustive-set',
                   'greedy design #%d T=%s C=%s is not among the %d designs ranked by the exhaustive search' % (pos, d['t'], d['c'], len(e))))
    elif best is not None and best < d['score'] and not _near(best, d['score']):
      out.append(V('beats', 'greedy:beats-exhaustive-best', 'greedy design #%d scores %r > exhaustive best %r' % (pos, d['score'], best)))
    else:
      ed = eset[sl.design_key(d)]
      if not _near(ed['score'], d['score']) and not (ed['score'][:5] == d['score'][:5]):
        out.append(V('score', 'greedy:score-differs-from-exhaustive', 'design T=%s C=%s: greedy score %r, exhaustive score %r' % (d['t'], d['c'], d['score'], ed['score'])))
  return out, info
