"""Seeded workload generators (DESIGN §3): response panels, eligibility matrices,
parameter objects, experiment frames. Everything is a deterministic function of the RNG
pair handed in, so a (property, tier, seed, index) tuple identifies a case exactly.
"""
import datetime
import itertools
import math

import numpy as np
import pandas as pd

# The seven legal eligibility rows (control, treatment, exclude) and their class names.
ROWS = {
    'c_fixed': (1, 0, 0), 't_fixed': (0, 1, 0), 'x_fixed': (0, 0, 1),
    'ct': (1, 1, 0), 'cx': (1, 0, 1), 'tx': (0, 1, 1), 'ctx': (1, 1, 1),
}
ROW_CLASS = {v: k for k, v in ROWS.items()}
ASSIGNABLE_CLASSES = ['c_fixed', 't_fixed', 'ct', 'cx', 'tx', 'ctx']


def pick(r, seq):
  return seq[r.randrange(len(seq))]


def weighted(r, pairs):
  tot = sum(w for _, w in pairs)
  u = r.random() * tot
  acc = 0.0
  for v, w in pairs:
    acc += w
    if u <= acc:
      return v
  return pairs[-1][0]


# ------------------------------------------------------------------------------ panels

def make_ids(r, n, style):
  """n distinct geo IDs. Styles: int (1..), intmix (2, 10, 1 ... string order differs from
  numeric), str (names), numstr (numeric strings)."""
  if style == 'int':
    return list(range(1, n + 1))
  if style == 'intmix':
    pool = [1, 2, 3, 10, 11, 20, 21, 100, 101, 12, 30, 200, 9, 19, 29, 99, 110, 5, 50, 500,
            7, 70, 700, 13, 130, 31, 310, 4, 40, 400, 8, 80, 800, 6, 60, 600]
    ids = r.sample(pool, n) if n <= len(pool) else list(range(1, n + 1))
    return ids
  if style == 'numstr':
    return [str(i) for i in make_ids(r, n, 'intmix')]
  if style == 'unicode':
    # names with accents, some spelled with combining marks (decomposed), some precomposed - also the SAME name in
    # both spellings, which are two different strings and hence two different geos
    pool = ['Zu\u0308rich', 'Z\u00fcrich', 'Sa\u0303o Paulo', 'S\u00e3o Paulo', 'Malmo\u0308', 'Me\u0301xico', 'K\u00f8benhavn',
            'A\u030arhus', '\u00c5rhus', 'Co\u0302te', 'I\u0307zmir', 'Wroc\u0142aw', 'N\u00eemes', 'Nı\u0302mes', 'Du\u0308sseldorf',
            'D\u00fcsseldorf', 'Go\u0308teborg', 'Bogota\u0301', 'Que\u0301bec', 'Qu\u00e9bec']
    return r.sample(pool, n) if n <= len(pool) else ['g\u0308%03d' % i for i in range(n)]
  names = ['NYC', 'LAX', 'CHI', 'HOU', 'PHX', 'PHL', 'SAT', 'SDG', 'DAL', 'SJC', 'AUS', 'JAX',
           'SFO', 'CMH', 'CLT', 'IND', 'SEA', 'DEN', 'DCA', 'BOS', 'ELP', 'BNA', 'DTW', 'OKC',
           'PDX', 'LAS', 'MEM', 'SDF', 'BWI', 'MKE', 'ABQ', 'TUS', 'FAT', 'SAC', 'MCI', 'MSY']
  return r.sample(names, n) if n <= len(names) else ['g%03d' % i for i in range(n)]


def gen_panel(r, g, n_geos, n_dates, cls='continuous', id_style='str', origin=None,
              date_style='ts'):
  """A geo x date response panel.

  Returns dict with ids (as given to the library), dates (list), values (G x D array),
  present (G x D bool; False = the (geo, date) row is missing from the long frame).
  """
  G, D = n_geos, n_dates
  ids = make_ids(r, G, id_style)
  if origin is None:
    origin = datetime.date(2019, 1, 1) + datetime.timedelta(days=r.randrange(0, 900))
  days = [origin + datetime.timedelta(days=i) for i in range(D)]
  profile = r.random()
  if profile < 0.3:
    sizes = g.uniform(0.75, 1.25, size=G) * 100.0      # flat: similar-sized geos (group shares interleave)
  else:
    sizes = np.exp(g.normal(0.0, 0.9, size=G)) * 100.0
    if G >= 3 and profile > 0.7:
      sizes[r.randrange(G)] *= 8.0          # one dominant geo (share / budget exclusions)
  t = np.arange(D)
  common = np.cumsum(g.normal(0, 1.0, size=D)) + 3.0 * np.sin(2 * np.pi * t / 7.0 + r.random() * 6)
  loadings = np.array([weighted(r, [(1.0, 5), (0.9, 2), (0.2, 1), (-0.5, 1)]) for _ in range(G)])
  noise_sc = np.array([weighted(r, [(0.1, 3), (0.5, 3), (1.5, 2), (3.0, 1)]) for _ in range(G)])
  if cls == 'marginal':
    # every geo equally noisy, tuned so that typical group correlations sit around min_corr (0.8)
    noise_sc = np.full(G, r.uniform(1.5, 3.5))
    loadings = np.ones(G)
  vals = np.empty((G, D))
  feats = []
  for i in range(G):
    eps = g.normal(0, 1.0, size=D)
    u = r.random()
    if u < 0.15:                         # AR(1) noise -> Durbin-Watson trouble
      phi = 0.85
      for k in range(1, D):
        eps[k] = phi * eps[k - 1] + math.sqrt(1 - phi * phi) * eps[k]
      feats.append('ar')
    elif u < 0.27 and D >= 10:           # structural break -> Brownian-bridge trouble
      eps[D // 2:] += 4.0
      feats.append('break')
    elif u < 0.37 and D >= 10:           # late shift -> A/A trouble
      eps[-max(2, D // 8):] += 5.0
      feats.append('late')
    vals[i] = sizes[i] * (10.0 + 0.5 * loadings[i] * common + 0.5 * noise_sc[i] * eps)
  present = np.ones((G, D), dtype=bool)
  if cls == 'dyadic':
    # integer-valued series whose totals are exact power-of-two multiples of one another: geo shares are dyadic
    # fractions, so volume ratios such as 2.0, 1.5, 0.5 occur EXACTLY in floating point (values on a bound)
    unit_sizes = [r.choice([1, 1, 2, 2, 4, 8]) for _ in range(G)]
    pattern = np.round(200 + 30 * np.sin(2 * np.pi * t / 7.0 + 1.0) + 10 * common).astype(np.int64)
    pattern = np.maximum(pattern, 20)
    for i in range(G):
      noise = np.round(g.normal(0, 6.0 * noise_sc[i] + 1.0, size=D)).astype(np.int64)
      noise[-1] -= noise.sum()                      # zero-sum integer noise: the total stays size * sum(pattern)
      vals[i] = unit_sizes[i] * pattern + noise
    feats.append('dyadic')
  if cls == 'near_twins' and G >= 3:
    # geo b follows geo a almost perfectly (correlation above rho_max but below 1)
    a, b = r.sample(range(G), 2)
    vals[b] = r.choice([0.5, 1.0, 2.0]) * vals[a] + sizes[a] * 1e-3 * g.normal(0, 1.0, size=D)
    feats.append('near_twins:%d,%d' % (a, b))
  if cls == 'giant' and G >= 3:
    # one geo is many orders of magnitude larger than the rest (e.g. a national aggregate row)
    k = r.randrange(G)
    vals[k] = vals[k] * 10.0 ** r.choice([9, 11, 13])
    feats.append('giant:%d' % k)
  if cls == 'high_level':
    # a huge level with ordinary day-to-day variation (level / s.d. around 1e7 .. 1e9): one-pass variance formulas
    # cancel catastrophically here, two-pass ones do not
    lev = 10.0 ** r.choice([7, 8, 9])
    for i in range(G):
      vals[i] = sizes[i] * lev + (vals[i] - vals[i].mean())
    feats.append('high_level')
  if cls == 'duplicates' and G >= 3:
    a, b = r.sample(range(G), 2)
    vals[b] = vals[a]
    feats.append('twins:%d,%d' % (a, b))
  elif cls == 'integer':
    vals = np.round(vals / sizes[:, None] * 2.0)      # small integers, many ties
    vals += (np.arange(G)[:, None] % 3)
  elif cls == 'gappy':
    for _ in range(max(1, (G * D) // 15)):
      i, k = r.randrange(G), r.randrange(D)
      present[i, k] = False
    for i in range(G):                   # keep every geo and every date present somewhere
      if not present[i].any():
        present[i, 0] = True
    for k in range(D):
      if not present[:, k].any():
        present[r.randrange(G), k] = True
  unit = 1.0
  if cls in ('continuous', 'gappy', 'duplicates') and r.random() < 0.15:
    unit = 2.0 ** r.choice([-20, 20, 26, 30])      # response unit: micro-units ... billions
    vals = vals * unit
  if date_style == 'iso':
    dates = [d.isoformat() for d in days]
  elif date_style == 'dmy':
    # text labels in day/month/year order: plain labels for the library (ordered as text, not chronologically)
    dates = [d.strftime('%d/%m/%Y') for d in days]
  elif date_style == 'tz':
    dates = [pd.Timestamp(d, tz='US/Eastern') for d in days]
  elif date_style == 'dst_hourly':
    # hourly tz-aware stamps running through the autumn change from daylight-saving to standard time: the wall-clock
    # hour 01:00 occurs twice (two distinct instants)
    start = pd.Timestamp('2021-11-07 05:00', tz='UTC') - pd.Timedelta(hours=r.randrange(1, max(2, D - 1)))
    dates = [(start + pd.Timedelta(hours=k)).tz_convert('US/Eastern') for k in range(D)]
  elif date_style == 'timeofday':
    dates = [pd.Timestamp(d) + pd.Timedelta(hours=(8 if k % 2 else 20)) for k, d in enumerate(days)]
  elif date_style == 'ns':
    dates = [pd.Timestamp(d).as_unit('ns') for d in days]
  else:
    dates = [pd.Timestamp(d) for d in days]
  return {'ids': ids, 'dates': dates, 'days': days, 'values': vals, 'present': present,
          'cls': cls, 'id_style': id_style, 'features': sorted(set(feats)) + (['unit=2^%d' % int(math.log2(unit))] if unit != 1.0 else [])}


def panel_frame(panel, r=None, shuffle=True, response='response', extra_col=False):
  """Long-format frame (geo, date, <response>) of a panel; rows optionally shuffled."""
  ids, dates, vals, present = panel['ids'], panel['dates'], panel['values'], panel['present']
  rows = []
  for i, gid in enumerate(ids):
    for k, d in enumerate(dates):
      if present[i, k]:
        rows.append((gid, d, float(vals[i, k])))
  for i, k, v in panel.get('dups') or []:
    rows.append((ids[i], dates[k], float(v)))      # restated (geo, date) rows: the pivot averages them
  if shuffle and r is not None:
    r.shuffle(rows)
  df = pd.DataFrame(rows, columns=['geo', 'date', response])
  if extra_col:
    df['other'] = 1.0
  return df


# ------------------------------------------------------------------------------ eligibility

def gen_elig_rows(r, ids, mode='mixed'):
  """Maps each geo id (as str) to a legal row class, or returns None for 'no matrix'."""
  if mode == 'none':
    return None
  out = {}
  if mode == 'ctx':
    weights = [('ctx', 1)]
  elif mode == 'mostly_ctx':
    weights = [('ctx', 10), ('cx', 2), ('tx', 2), ('ct', 1), ('c_fixed', 1), ('t_fixed', 1),
               ('x_fixed', 1)]
  elif mode == 'hostile':
    weights = [('ctx', 2), ('cx', 3), ('tx', 3), ('ct', 2), ('c_fixed', 3), ('t_fixed', 3),
               ('x_fixed', 3)]
  else:
    weights = [('ctx', 5), ('cx', 2), ('tx', 2), ('ct', 2), ('c_fixed', 1.5), ('t_fixed', 1.5),
               ('x_fixed', 1)]
  for gid in ids:
    out[str(gid)] = weighted(r, weights)
  return out


def elig_frame(rows, r=None, index_keyed=False, id_cast=None, shuffle=True):
  """DataFrame form of an eligibility mapping {geo: class}."""
  items = list(rows.items())
  if shuffle and r is not None:
    r.shuffle(items)
  geos = [k for k, _ in items]
  if id_cast is not None:
    geos = [id_cast(gid) for gid in geos]
  df = pd.DataFrame({
      'geo': geos,
      'control': [ROWS[c][0] for _, c in items],
      'treatment': [ROWS[c][1] for _, c in items],
      'exclude': [ROWS[c][2] for _, c in items]})
  if r is not None and shuffle and r.random() < 0.3:
    cols = list(df.columns)
    r.shuffle(cols)                       # columns are looked up by name: their order must not matter
    df = df[cols]
  if index_keyed:
    df = df.set_index('geo')
  return df


# ------------------------------------------------------------------------------ parameters

def t_ppf(p, df):
  from scipy import stats  # pylint: disable=g-import-not-at-top
  return float(stats.t.ppf(p, df=df))


def impact_multiplier(n, n_test, flevel, sig, power):
  """(t_sig + t_pow) * n_test * sqrt(phi (n+1)/(n n_test (n-1)) + 1/n + 1/n_test)."""
  from scipy import stats  # pylint: disable=g-import-not-at-top
  phi = float(stats.f.ppf(flevel, 1, n - 1))
  return (t_ppf(sig, n - 2) + t_ppf(power, n - 2)) * n_test * math.sqrt(
      phi * (n + 1) / (n * n_test * (n - 1)) + 1.0 / n + 1.0 / n_test)


def ref_required_impact(y, x, n_test, flevel, sig, power):
  """Independent closed form: (t_sig + t_pow) * scale, scale from an OLS fit of y on x."""
  y = np.asarray(y, dtype=float)
  x = np.asarray(x, dtype=float)
  n = len(y)
  xm, ym = x.mean(), y.mean()
  sxx = float(((x - xm) ** 2).sum())
  b = float(((x - xm) * (y - ym)).sum()) / sxx
  a = ym - b * xm
  resid = y - a - b * x
  sigma = math.sqrt(float((resid ** 2).sum()) / (n - 2))
  return impact_multiplier(n, n_test, flevel, sig, power) * sigma


def ref_optimistic_impact(y, rho, n_test, flevel, sig, power):
  y = np.asarray(y, dtype=float)
  n = len(y)
  sd = math.sqrt(float(((y - y.mean()) ** 2).sum()) / (n - 2))
  return impact_multiplier(n, n_test, flevel, sig, power) * sd * math.sqrt(1 - rho * rho)


def gen_params(r, panel, elig_rows, focus=None, allow=('size', 'ratio', 'volume', 'share',
                                                        'budget', 'ngeos')):
  """Keyword arguments for TBRMMDesignParameters, with ranges calibrated on the data so
  that constraints bind. `focus` forces one constraint kind to be present."""
  G = len(panel['ids'])
  D = len(panel['dates'])
  kw = {}
  # analysis window and test length
  u = r.random()
  if u < 0.55 or D < 12:
    npre = 90
  elif u < 0.8:
    npre = r.randrange(max(6, D // 2), D + 1)
  else:
    npre = D + r.randrange(0, 6)
  win = min(D, npre)
  n_test_max = max(1, min(win - 3, 14))
  n_test = r.randrange(1, n_test_max + 1)
  if npre != 90:
    kw['n_pretest_max'] = npre
  kw['n_test'] = n_test
  kw['iroas'] = pick(r, [1.0, 1.0, 2.0, 0.5, 3.0, 10.0])
  if r.random() < 0.35:
    kw['sig_level'] = pick(r, [0.8, 0.9, 0.95, 0.6])
  if r.random() < 0.35:
    kw['power_level'] = pick(r, [0.5, 0.8, 0.9, 0.7])
  if r.random() < 0.3:
    kw['min_corr'] = pick(r, [0.8, 0.85, 0.9, 0.95])
  if r.random() < 0.3:
    kw['rho_max'] = pick(r, [0.9, 0.95, 0.99, 0.995, 0.999])
  if r.random() < 0.2:
    kw['flevel'] = pick(r, [0.9, 0.95, 0.99])
  kw['n_designs'] = weighted(r, [(1, 3), (2, 2), (3, 2), (5, 2), (50, 2), (100000, 3)])

  kinds = set()
  for kind, p in [('size', 0.3), ('ratio', 0.25), ('volume', 0.25), ('share', 0.25),
                  ('budget', 0.3), ('ngeos', 0.15)]:
    if kind in allow and r.random() < p:
      kinds.add(kind)
  if focus and focus in allow:
    kinds.add(focus)

  if 'size' in kinds:
    w = r.random()
    if w < 0.7:
      lo = r.randrange(1, max(2, G // 2 + 1))
      kw['treatment_geos_range'] = (lo, lo + r.randrange(0, max(1, G // 2)))
    if w > 0.4:
      lo = r.randrange(1, max(2, G // 2 + 1))
      kw['control_geos_range'] = (lo, lo + r.randrange(0, max(1, G // 2)))
  if 'ratio' in kinds:
    kw['geo_ratio_tolerance'] = pick(r, [1.0, 0.5, 2.0, 1.0 / 3, 0.01, 0.25, 3.0, 0.999, 1.001])
  if 'volume' in kinds:
    kw['volume_ratio_tolerance'] = pick(r, [0.1, 0.3, 0.5, 1.0, 2.0, 5.0])

  # data-calibrated share / budget ranges
  vals = panel['values'] * panel['present']
  means = vals.mean(axis=1)
  shares = means / means.sum()
  if 'share' in kinds:
    k = r.randrange(1, max(2, G))
    sub = r.sample(range(G), min(k, G))
    s = float(shares[sub].sum())
    mode = r.random()
    if mode < 0.5 and 3 <= G <= 10:
      # lower bound that binds among multi-geo treatment groups, upper bound generous: some groups of a
      # given size are too small while later ones of the same size are fine
      k2 = r.choice([2, 2, 3]) if G >= 4 else 2
      sums = sorted(float(shares[list(c)].sum()) for c in itertools.combinations(range(G), k2))
      lo = sums[int(r.uniform(0.2, 0.8) * (len(sums) - 1))] * r.choice([0.999, 1.001])
      hi = r.uniform(max(lo * 1.05, 0.6), 0.999)
      mode = 2.0
    elif mode < 0.5:
      lo, hi = max(1e-6, s * r.uniform(0.3, 0.9)), min(0.999999, s * r.uniform(1.1, 2.0))
    elif mode < 0.7:
      lo, hi = 1e-6, min(0.999999, max(2e-6, s))
    elif mode < 0.85:
      lo, hi = min(0.99, max(1e-6, s)), 0.999999
    else:
      lo, hi = 0.001, 0.999
    if lo < hi < 1:
      kw['treatment_share_range'] = (lo, hi)
  if 'budget' in kinds:
    budgets = []
    W = vals[:, -win:]
    fl, sg, pw = kw.get('flevel', 0.9), kw.get('sig_level', 0.9), kw.get('power_level', 0.8)
    for _ in range(12):
      if G < 2:
        break
      kt = r.randrange(1, G)
      perm = r.sample(range(G), G)
      T, rest = perm[:kt], perm[kt:]
      C = rest[:r.randrange(1, len(rest) + 1)]
      y, x = W[T].sum(axis=0), W[C].sum(axis=0)
      if np.ptp(x) == 0 or np.ptp(y) == 0:
        continue
      try:
        budgets.append(ref_required_impact(y, x, n_test, fl, sg, pw) / kw['iroas'])
      except (ValueError, ZeroDivisionError, FloatingPointError):
        pass
    budgets = sorted(b for b in budgets if math.isfinite(b) and b > 0)
    if budgets:
      q = lambda p: budgets[min(len(budgets) - 1, int(p * len(budgets)))]
      mode = r.random()
      if mode < 0.35:
        lo, hi = q(0.2) * 0.999, q(0.7) * 1.001
      elif mode < 0.5:
        lo, hi = 0.0, q(0.5)
      elif mode < 0.65:
        lo, hi = q(0.4), budgets[-1] * 50
      elif mode < 0.75:
        lo, hi = 0.0, budgets[0] * 0.5          # (almost) everything over budget
      elif mode < 0.85:
        lo, hi = budgets[-1] * 20, budgets[-1] * 40   # everything under budget
      else:
        lo, hi = 0.0, budgets[-1] * 100        # wide open
      if lo < hi:
        kw['budget_range'] = (float(lo), float(hi))
  if 'ngeos' in kinds:
    kw['n_geos_max'] = r.randrange(2, G + 2)
  return kw


# ------------------------------------------------------------------------------ experiments

def gen_experiment(r, g, n_pre=None, n_test=None, n_cool=None, n_ctl=None, n_trt=None,
                   cost_mode=None, shape=None, extras=None, lift=None, int_dtype=None,
                   cost_scale=1.0, noise_level=None, date_style=None, cooldown_spend=0.0):
  """A geo experiment frame description (geo x date x group/period/response/cost).

  Returns dict: frame (DataFrame, columns date geo group period response cost), plus the
  per-date control / treatment totals used by oracles, and the knobs.
  extras: set of {'unassigned_geo', 'gap', 'after'}: group -1 geos, a period -1 gap between
  pre and test, dates after cooldown labelled 3.
  """
  n_pre = n_pre if n_pre is not None else weighted(r, [(3, 1), (4, 1), (5, 1), (r.randrange(6, 15), 4),
                                                      (r.randrange(15, 60), 4)])
  n_test = n_test if n_test is not None else r.randrange(1, 16)
  n_cool = n_cool if n_cool is not None else pick(r, [0, 0, 1, 2, 3, 7])
  n_ctl = n_ctl or r.randrange(1, 7)
  n_trt = n_trt or r.randrange(1, 7)
  cost_mode = cost_mode or pick(r, ['fixed', 'variable'])
  shape = shape or pick(r, ['iid', 'iid', 'walk', 'swing'])
  extras = set(extras or ())
  n_gap = r.randrange(1, 4) if 'gap' in extras else 0
  n_after = r.randrange(1, 4) if 'after' in extras else 0
  D = n_pre + n_gap + n_test + n_cool + n_after
  periods = [0] * n_pre + [-1] * n_gap + [1] * n_test + [2] * n_cool + [3] * n_after
  origin = datetime.date(2020, 1, 1) + datetime.timedelta(days=r.randrange(0, 700))
  if date_style is None:
    date_style = weighted(r, [('ts', 8), ('tz', 1), ('ns', 1)])
  if date_style == 'tz':
    dates = [pd.Timestamp(origin + datetime.timedelta(days=i), tz='UTC') for i in range(D)]
  elif date_style == 'int0':          # day numbers 0 .. D-1
    dates = list(range(D))
  elif date_style == 'int1':          # day numbers 1 .. D
    dates = list(range(1, D + 1))
  elif date_style == 'yyyymmdd':      # integer calendar labels
    dates = [int((origin + datetime.timedelta(days=i)).strftime('%Y%m%d')) for i in range(D)]
  elif date_style == 'iso':           # text dates
    dates = [(origin + datetime.timedelta(days=i)).isoformat() for i in range(D)]
  elif date_style == 'date':          # datetime.date objects
    dates = [origin + datetime.timedelta(days=i) for i in range(D)]
  elif date_style == 'ns':
    dates = [pd.Timestamp(origin + datetime.timedelta(days=i)).as_unit('ns') for i in range(D)]
  else:
    dates = [pd.Timestamp(origin + datetime.timedelta(days=i)) for i in range(D)]
  if noise_level is None:
    noise_level = weighted(r, [(0.4, 12), (1e-6, 1)])     # rarely: the treatment follows the control almost perfectly
  t = np.arange(D)
  if shape == 'iid':
    base = g.normal(0, 1.0, size=D)
  elif shape == 'walk':
    base = np.cumsum(g.normal(0, 0.6, size=D))
  else:                                   # swing: big excursion and reversal in the test period
    base = g.normal(0, 0.5, size=D)
    s = n_pre + n_gap
    m = max(1, n_test // 2)
    base[s:s + m] += 6.0
    base[s + m:s + n_test] -= 6.0
  base = base + 1.5 * np.sin(2 * np.pi * t / 7.0)
  level = pick(r, [20.0, 100.0, 1000.0])
  geos = []
  gid = 1
  groups = [(1, n_ctl), (2, n_trt)]
  if 'unassigned_geo' in extras:
    groups.append((-1, r.randrange(1, 3)))
  rows = []
  in_test = np.array([p in (1,) for p in periods])
  in_exp = np.array([p in (1, 2) for p in periods])
  if lift is None:
    lift = pick(r, [0.0, 0.5, 2.0, 5.0])
  for grp, cnt in groups:
    for _ in range(cnt):
      size = math.exp(g.normal(0, 0.5))
      noise = g.normal(0, noise_level, size=D)
      resp = size * (level + 2.0 * base + noise)
      cost = np.zeros(D)
      if cost_mode == 'variable':
        cost = size * (5.0 + 0.3 * base + 0.05 * g.normal(0, 1, size=D))
        cost = np.maximum(cost, 1e-3)
      elif cost_mode == 'treatment_pre_only' and grp == 2:
        # the treatment group already spends before the test; the control group never does
        cost = size * (2.0 + 0.05 * g.normal(0, 1, size=D)) * np.array([p == 0 for p in periods])
      elif cost_mode == 'control_test_only' and grp == 1:
        cost = size * 0.5 * in_test
      elif cost_mode == 'bystander_pre_only' and grp == -1:
        # only geos outside the two experiment groups spend before the test
        cost = size * (2.0 + 0.05 * g.normal(0, 1, size=D)) * np.array([p == 0 for p in periods])
      elif cost_mode == 'late_treatment_spend':
        # control spend ramps steadily; the treatment group only starts spending part-way through the pre-period,
        # so the fitted line is negative on early dates although no spend is ever negative
        ramp = np.linspace(1.0, 12.0, D) + 0.05 * g.normal(0, 1, size=D)
        if grp == 1:
          cost = size * ramp
        elif grp == 2:
          start = max(1, n_pre // 2)
          cost = size * np.where(np.arange(D) >= start, 0.9 * (ramp - ramp[start]) + 0.02 * np.abs(g.normal(0, 1, size=D)), 0.0)
      elif cost_mode == 'control_pinned' and grp in (1, 2):
        # control spend fluctuates before the test and is pinned to a fixed daily budget afterwards
        cost = size * (5.0 + 0.3 * base + 0.05 * g.normal(0, 1, size=D))
        cost = np.maximum(cost, 1e-3)
        if grp == 1:
          cost = np.where(np.array([p in (1, 2, 3) for p in periods]), 4.0, cost)
      if grp == 2:
        resp = resp + size * lift * in_test
        spend = size * pick(r, [3.0, 10.0])
        cost = cost + spend * in_test
        if cooldown_spend:
          # the campaign tails off: the treatment group still spends (less) during the cooldown period
          cost = cost + spend * cooldown_spend * np.array([p == 2 for p in periods])
      cost = cost * cost_scale
      for k in range(D):
        rows.append((dates[k], gid, grp, periods[k], float(resp[k]), float(cost[k])))
      geos.append((gid, grp))
      gid += 1
  r.shuffle(rows)
  frame = pd.DataFrame(rows, columns=['date', 'geo', 'group', 'period', 'response', 'cost'])
  if int_dtype is None:
    int_dtype = r.random() < 0.2 and cost_scale >= 1.0
  if int_dtype:
    # whole-number metrics stored as int64 (sales counts, whole-currency spend)
    # int_dtype may also give the unit: 10 (default, tenths) or e.g. 10**6 (micros)
    unit_ = 10 if int_dtype is True else int(int_dtype)
    frame['response'] = np.round(frame['response'] * unit_).astype('int64')
    frame['cost'] = np.round(frame['cost'] * unit_).astype('int64')
  return {'frame': frame, 'int_dtype': (int_dtype if int_dtype else False), 'n_pre': n_pre, 'n_test': n_test, 'n_cool': n_cool, 'n_gap': n_gap,
          'n_after': n_after, 'n_ctl': n_ctl, 'n_trt': n_trt, 'cost_mode': cost_mode,
          'shape': shape, 'extras': sorted(extras), 'dates': dates, 'periods': periods, 'cost_scale': cost_scale,
          'noise_level': noise_level, 'date_style': date_style,
          'lift': lift}


def group_totals(frame, col, group, dates):
  """Per-date totals of `col` over geos of `group`, in the order of `dates` (pure python)."""
  tot = {d: 0.0 for d in dates}
  for d, grp, v in zip(frame['date'], frame['group'], frame[col]):
    if grp == group and d in tot and v == v:       # a missing value contributes nothing
      tot[d] += v
  return np.array([tot[d] for d in dates])


def multisets(classes, n):
  return list(itertools.combinations_with_replacement(classes, n))
