"""Worker: executes the cases of one shard and streams one JSON line per case."""
import json
import os
import signal
import sys
import traceback


class CaseTimeout(BaseException):
  pass


def _alarm(signum, frame):
  raise CaseTimeout()


def main(argv):
  prop, tier, seed, shard, jobs, n_cases, out = argv[:7]
  seed, shard, jobs, n_cases = int(seed), int(shard), int(jobs), int(n_cases)
  only = [int(i) for i in argv[7].split(',')] if len(argv) > 7 else None
  from mmv import bootstrap  # pylint: disable=g-import-not-at-top
  bootstrap.setup()
  import importlib  # pylint: disable=g-import-not-at-top
  mod = importlib.import_module('mmv.props.' + prop.lower())
  if hasattr(mod, 'prepare'):
    mod.prepare(tier)
  limit = getattr(mod, 'CASE_TIMEOUT', {}).get(tier, 120 if tier == 'quick' else 600)
  signal.signal(signal.SIGALRM, _alarm)
  idxs = only if only is not None else range(shard, n_cases, jobs)
  with open(out, 'w') as f:
    for idx in idxs:
      rec = None
      try:
        signal.setitimer(signal.ITIMER_REAL, limit)
        try:
          spec = mod.gen_case(tier, seed, idx)
          rec = mod.run_case(spec)
        finally:
          signal.setitimer(signal.ITIMER_REAL, 0)
        rec['idx'] = idx
      except CaseTimeout:
        rec = {'idx': idx, 'timeout': True}
      except Exception as e:  # pylint: disable=broad-except
        # An exception nobody anticipated. If it was raised by the tree under test (innermost frame inside the
        # repository) at a point where every validated execution of the unchanged tree returned normally, it is
        # reported as a violation with the frame as witness; if it comes from the harness itself it is a harness
        # error (inconclusive).
        from mmv import util  # pylint: disable=g-import-not-at-top
        tb = traceback.extract_tb(e.__traceback__)
        root = os.path.join(bootstrap.REPO_DIR, 'matched_markets')
        last = tb[-1] if tb else None
        in_repo = [f for f in tb if os.path.abspath(f.filename).startswith(root)]
        if last is not None and in_repo and (os.path.abspath(last.filename).startswith(root) or 'site-packages' in last.filename):
          fr = in_repo[-1]
          rec = {'idx': idx, 'nontrivial': False, 'fp': 'exc-%d' % idx, 'classes': ['unexpected-exception'], 'counters': {},
                 'violations': [{'clause': 'unexpected-exception',
                                 'mech': 'unexpected:%s@%s:%s' % (type(e).__name__, os.path.basename(fr.filename), fr.name),
                                 'detail': 'the tree under test raised %s: %s at %s:%d (%s) where the harness expected a normal return; %s' % (
                                     type(e).__name__, str(e)[:200], os.path.basename(fr.filename), fr.lineno, fr.name,
                                     ' <- '.join('%s:%d' % (os.path.basename(f.filename), f.lineno) for f in tb[-4:]))}],
                 'sample': None}
        else:
          rec = {'idx': idx, 'harness_error': traceback.format_exc()}
      f.write(json.dumps(rec, default=str) + '\n')
      f.flush()
  return 0


if __name__ == '__main__':
  sys.exit(main(sys.argv[1:]))
