"""Worker: executes the cases of one shard and streams one JSON line per case."""
import json
import os
import signal
import sys
import traceback


class CaseTimeout(BaseException):
  pass


def _alarm(signum, frame):
  raise CaseTimeout()


def main(argv):
  prop, tier, seed, shard, jobs, n_cases, out = argv[:7]
  seed, shard, jobs, n_cases = int(seed), int(shard), int(jobs), int(n_cases)
  only = [int(i) for i in argv[7].split(',')] if len(argv) > 7 else None
  from mmv import bootstrap  # pylint: disable=g-import-not-at-top
  bootstrap.setup()
  import importlib  # pylint: disable=g-import-not-at-top
  mod = importlib.import_module('mmv.props.' + prop.lower())
  if hasattr(mod, 'prepare'):
    mod.prepare(tier)
  limit = getattr(mod, 'CASE_TIMEOUT', {}).get(tier, 120 if tier == 'quick' else 600)
  signal.signal(signal.SIGALRM, _alarm)
  idxs = only if only is not None else range(shard, n_cases, jobs)
  with open(out, 'w') as f:
    for idx in idxs:
      rec = None
      try:
        signal.setitimer(signal.ITIMER_REAL, limit)
        try:
          spec = mod.gen_case(tier, seed, idx)
          rec = mod.run_case(spec)
        finally:
          signal.setitimer(signal.ITIMER_REAL, 0)
        rec['idx'] = idx
      except CaseTimeout:
        rec = {'idx': idx, 'timeout': True}
      except Exception:  # pylint: disable=broad-except
        rec = {'idx': idx, 'harness_error': traceback.format_exc()}
      f.write(json.dumps(rec, default=str) + '\n')
      f.flush()
  return 0


if __name__ == '__main__':
  sys.exit(main(sys.argv[1:]))
