"""Small shared helpers: per-case RNGs, fingerprints, boundary call recording."""
import hashlib
import json
import math
import os
import random
import traceback

import numpy as np

from mmv import bootstrap


def prop_num(prop):
  return int(prop[1:])


def rngs(prop, seed, idx, salt=0):
  """Deterministic (random.Random, numpy Generator) pair for one case."""
  r = random.Random('%s:%d:%d:%d' % (prop, seed, idx, salt))
  g = np.random.default_rng([prop_num(prop), seed & 0xffffffff, idx, salt])
  return r, g


def fp(obj):
  """Stable short fingerprint of a JSON-able object."""
  s = json.dumps(obj, sort_keys=True, default=str)
  return hashlib.sha1(s.encode()).hexdigest()[:16]


def innermost_repo_frame(exc):
  """'file.py:line in func' of the innermost frame of `exc` inside the tree under test."""
  tb = traceback.extract_tb(exc.__traceback__)
  root = os.path.join(bootstrap.REPO_DIR, 'matched_markets')
  best = None
  for fr in tb:
    if os.path.abspath(fr.filename).startswith(root):
      best = fr
  if best is None:
    return None
  return '%s:%d in %s' % (os.path.basename(best.filename), best.lineno, best.name)


def repo_frames(exc):
  tb = traceback.extract_tb(exc.__traceback__)
  root = os.path.join(bootstrap.REPO_DIR, 'matched_markets')
  return ['%s:%d:%s' % (os.path.basename(f.filename), f.lineno, f.name) for f in tb
          if os.path.abspath(f.filename).startswith(root)]


class Outcome:
  """Result of a boundary call: value or exception (type name, message, repo frame)."""

  def __init__(self, value=None, exc=None):
    self.value = value
    self.exc = exc

  @property
  def ok(self):
    return self.exc is None

  @property
  def exc_type(self):
    return type(self.exc).__name__ if self.exc is not None else None

  def describe(self):
    if self.exc is None:
      return 'returned'
    return '%s: %s @ %s' % (self.exc_type, str(self.exc)[:120], innermost_repo_frame(self.exc))


def call(fn, *args, **kwargs):
  """Invokes fn at the client boundary, capturing any ordinary exception."""
  try:
    return Outcome(value=fn(*args, **kwargs))
  except Exception as e:  # pylint: disable=broad-except
    return Outcome(exc=e)


def close(a, b, rtol=1e-9, atol=0.0):
  """NaN-aware, inf-aware closeness of two scalars."""
  if a is None or b is None:
    return a is None and b is None
  a, b = float(a), float(b)
  if math.isnan(a) or math.isnan(b):
    return math.isnan(a) and math.isnan(b)
  if math.isinf(a) or math.isinf(b):
    return a == b
  return abs(a - b) <= atol + rtol * max(abs(a), abs(b))


def arr_close(a, b, rtol=1e-9, atol=0.0):
  a = np.asarray(a, dtype=float)
  b = np.asarray(b, dtype=float)
  if a.shape != b.shape:
    return False
  return bool(np.allclose(a, b, rtol=rtol, atol=atol, equal_nan=True))


def jsonable(x):
  """Best-effort conversion of numpy / pandas scalars and containers to JSON-able data."""
  if isinstance(x, dict):
    return {str(k): jsonable(v) for k, v in x.items()}
  if isinstance(x, (list, tuple)):
    return [jsonable(v) for v in x]
  if isinstance(x, (set, frozenset)):
    return sorted((jsonable(v) for v in x), key=str)
  if isinstance(x, np.ndarray):
    return [jsonable(v) for v in x.tolist()]
  if isinstance(x, (np.integer,)):
    return int(x)
  if isinstance(x, (np.floating,)):
    return float(x)
  if isinstance(x, (np.bool_,)):
    return bool(x)
  if isinstance(x, float) or isinstance(x, int) or isinstance(x, str) or x is None:
    return x
  return str(x)
