"""pytest plugin: runs the repository's own tests with P-DIAG (icontract invariant) and P-HEAP installed.

A contract that fires here is either too strict or a defect the tests do not assert; the C08 thorough tier
reports every test that fails with StaleCache / a P-HEAP alarm (and would not fail without the monitors).
Output: JSON at $MMV_PLUGIN_OUT with counters and the failing test ids."""
import json
import os

from mmv import bootstrap
from mmv import probes

_state = {'stale_tests': [], 'heap_alarm_tests': []}


def pytest_configure(config):
  bootstrap.setup()
  probes.install_diag()
  probes.install_heap()


def pytest_runtest_setup(item):
  probes.reset()


def pytest_runtest_makereport(item, call):
  if call.excinfo is not None and call.excinfo.errisinstance(probes.StaleCache):
    _state['stale_tests'].append({'test': item.nodeid, 'slots': probes.DIAG_STATE.get('last_stale')})
  if call.when == 'call' and probes.ALARMS:
    _state['heap_alarm_tests'].append({'test': item.nodeid, 'alarm': probes.ALARMS[0]})


def pytest_sessionfinish(session, exitstatus):
  out = os.environ.get('MMV_PLUGIN_OUT')
  if out:
    with open(out, 'w') as f:
      json.dump({'counts': dict(probes.COUNTS), 'stale_tests': _state['stale_tests'],
                 'heap_alarm_tests': _state['heap_alarm_tests']}, f, default=str)
