"""C04 — diagnostics and score attached to a design belong to its reported geos.

Oracle: raw-frame pivot (own code) gives the series of the *reported geo IDs* over the most
recent n_pretest_max dates; a pristine shadow object recomputes correlation, required
impact, the four test outcomes and the score from those two series and the parameters; an
independent closed form referees the required impact.
"""
import collections

from mmv import probes
from mmv import searchlab as sl
from mmv import searchprops as sp
from mmv import util

PROP = 'C04'
LEVEL = 'exploration'
RULE = ('Generated panels (2-6 geos quick / 2-7 thorough; 8-20 greedy-only) where geo order, exclusion and '
        'truncation all bite: must-exclude geos, n_geos_max, n_pretest_max < number of dates, shuffled rows, integer '
        'IDs whose string order differs from numeric order, n_designs >= 5 so several deep-copied diagnostics coexist. '
        'For every returned design of both searches and every list position: diag.y / diag.x vs sums over the '
        'reported IDs, corr, required impact, four test outcomes, score tuple, last score entry (max budget / impact '
        'for the exhaustive search with a budget range, else 1 / impact). Non-trivial: >= 2 designs returned and the '
        'geo index is not an identity prefix of the mean-sorted geo list; distinct by input description.')
ASSUMPTIONS = ['series tolerance 1e-12 x number of geos (summation order); derived values 1e-7..1e-9 relative; '
               'test outcomes compared exactly unless within 1e-9 of flipping']
EXHAUSTIVE = {'quick': False, 'thorough': False}
MINIMA = {'quick': {'constant_control_designs': 10, 'min_corr_just_above_a_design': 4, 'dst_hourly_panels': 20, 'searches_after_caller_edits': 80, 'referee_tests': 400, 'sig_level_below_half': 20, 'shared_data_searches': 40, 'designs_checked': 400, 'distinct_nontrivial': 40, 'truncated_window_cases': 30},
          'thorough': {'constant_control_designs': 100, 'min_corr_just_above_a_design': 60, 'dst_hourly_panels': 200, 'searches_after_caller_edits': 800, 'referee_tests': 6000, 'sig_level_below_half': 200, 'shared_data_searches': 400, 'designs_checked': 6000, 'distinct_nontrivial': 600, 'truncated_window_cases': 400}}
N = {'quick': 480, 'thorough': 4000}
N_LARGE = {'quick': 16, 'thorough': 120}
CASE_TIMEOUT = {'quick': 300, 'thorough': 900}


def n_cases(tier):
  return N[tier] + N_LARGE[tier]


def gen_case(tier, seed, idx):
  return {'tier': tier, 'seed': seed, 'idx': idx, 'kind': 'random' if idx < N[tier] else 'large'}


def prepare(tier):
  probes.install_heap()


def run_case(spec):
  r, g = util.rngs(PROP, spec['seed'], spec['idx'])
  tier = spec['tier']
  which_list = ('exhaustive', 'greedy')
  if spec['kind'] == 'large':
    G = r.randrange(8, 21)
    case = sl.make_case(r, g, G, elig_mode='mostly_ctx', n_dates=r.randrange(20, 50), id_style=r.choice(['intmix', 'numstr']))
    which_list = ('greedy',)
  else:
    G = r.randrange(2, 7 if tier == 'quick' else 8)
    case = sl.make_case(r, g, G, id_style=r.choice(['intmix', 'numstr', 'int', 'str']),
                        date_style=('dst_hourly' if spec['idx'] % 12 == 9 else None),
                        cls=('giant' if spec['idx'] % 12 == 5 else 'near_twins' if spec['idx'] % 12 == 7 else None),
                        focus=r.choice([None, 'ngeos', 'budget', 'share']),
                        elig_mode=r.choice(['mixed', 'mostly_ctx', 'mixed', 'none']))
  if case['elig_rows'] is not None and r.random() < 0.6:
    # exclude one of the larger geos so that positions in the geo index differ from the
    # positions in the mean-sorted table (an index / ID mix-up becomes visible)
    vals = case['panel']['values']
    order = sorted(range(len(vals)), key=lambda i: -float(vals[i].mean()))
    gid = str(case['panel']['ids'][order[r.randrange(0, max(1, len(order) // 2))]])
    if gid in case['elig_rows']:
      case['elig_rows'][gid] = 'x_fixed'
  if spec['kind'] != 'large' and spec['idx'] % 12 == 3 and len(case['panel']['ids']) >= 3:
    # a control-only geo whose response is flat (and not zero) over the whole panel, every other geo treatment-eligible:
    # designs whose control group is that geo alone have no regression fit
    from mmv import gen as _gen  # pylint: disable=g-import-not-at-top
    ids_ = [str(i) for i in case['panel']['ids']]
    kf = r.randrange(len(ids_))
    case['panel']['values'][kf, :] = float(max(1.0, round(abs(case['panel']['values'][kf].mean()))))
    case['panel']['present'][kf, :] = True
    case['panel']['dups'] = None
    case['frame'] = _gen.panel_frame(case['panel'], r, shuffle=True)
    case['elig_rows'] = {gid: ('cx' if i == kf else r.choice(['tx', 'ctx', 'ctx'])) for i, gid in enumerate(ids_)}
    case['extra'] = {}
    for k2 in ('budget_range', 'treatment_share_range', 'n_geos_max', 'volume_ratio_tolerance', 'control_geos_range', 'geo_ratio_tolerance'):
      case['params'].pop(k2, None)
  kw = case['params']
  kw['n_designs'] = r.choice([5, 8, 50, 100000])
  D = len(case['panel']['dates'])
  if r.random() < 0.5 and D > kw['n_test'] + 4:
    kw['n_pretest_max'] = r.randrange(kw['n_test'] + 3, D)
  if spec['idx'] % 9 == 4:
    # one-sided level below one half (legal): the A/A interval is stored as (higher, lower)
    kw['sig_level'] = r.choice([0.3, 0.45, 0.2])
    kw['power_level'] = 0.9
  counters = collections.Counter()
  if spec['idx'] % 6 == 1 and spec['kind'] != 'large':
    # min_corr placed a hair above the correlation of a design that an unconstrained run returns: its correlation
    # test must fail (and its first score entry be 0), however small the gap
    kw0 = dict(kw)
    kw0.pop('min_corr', None)
    probe = sl.run_search(dict(case, params=kw0), 'greedy')
    if probe['outcome'].ok and probe['designs']:
      cs = [d['corr'] for d in probe['designs'] if d.get('corr') is not None and 0.8 <= d['corr'] < 0.9999]
      if cs:
        c0 = r.choice(cs)
        kw['min_corr'] = min(0.99999, c0 + r.choice([4e-6, 1e-6, 1e-7, 2e-8]))
        counters['min_corr_just_above_a_design'] += 1
  truth = sl.Truth(case)
  counters['sig_level_below_half'] += kw.get('sig_level', 0.9) < 0.5
  counters['dst_hourly_panels'] += spec['kind'] != 'large' and spec['idx'] % 12 == 9
  violations = []
  outcomes = []
  max_returned = 0
  sp.INFO.clear()
  shuffled_index = False
  par = sl.shadow_params(case)
  shared = spec['idx'] % 4 == 1      # A.search -> B.search (same data object) -> A.search, last call judged
  for which in which_list:
    edits = spec['idx'] % 4 == 2      # earlier results (objects of their own) edited in place by the caller
    rec = sl.run_search(case, which, interleave=(r if shared else None),
                        scribble_prior=(['exhaustive', 'greedy'] if edits and spec['kind'] != 'large' else ['greedy'] if edits else None))
    counters['shared_data_searches'] += bool(rec.get('interleaved'))
    counters['searches_after_caller_edits'] += bool(rec.get('scribbled'))
    counters['containers_edited_by_caller'] += rec.get('scribbled', 0)
    if not rec['outcome'].ok or rec['designs'] is None:
      outcomes.append(sp.search_failed(rec, which) if not rec['outcome'].ok else which + ':unreadable')
      counters['search_raised'] += 1
      continue
    ds = rec['designs']
    outcomes.append('%s:%d' % (which, len(ds)))
    max_returned = max(max_returned, len(ds))
    v, n = sp.c04_clauses(case, truth, rec, which, par)
    violations += v
    counters['designs_checked'] += n
    data = rec['objs'][0]
    gi = list(data.geo_index or [])
    canon = [str(x) for x in data.df.index]
    if gi != canon[:len(gi)]:
      shuffled_index = True
  if truth.n < D:
    counters['truncated_window_cases'] += 1
  counters['referee_tests'] += sp.INFO.get('referee_tests', 0)
  counters['constant_control_designs'] += sp.INFO.get('constant_control_designs', 0)
  desc = sl.describe(case, with_frame=False)
  return {'nontrivial': max_returned >= 2 and shuffled_index, 'fp': util.fp(desc), 'classes': [spec['kind']],
          'counters': dict(counters), 'outcome': ' '.join(outcomes), 'violations': violations[:10],
          'sample': {'case': desc, 'outcomes': outcomes, 'window': truth.n, 'n_dates': D},
          'case': sl.describe(case) if violations else None}
