"""C14 — results ordered best-first and capped; the bounded queue keeps the top k.

Monitors: P-HEAP (online sorted-list model per key on the real HeapDict, checked on every
read, double-read, mutation of returned lists) driven by (a) complete enumeration of short
push histories, (b) random long histories with hostile item types, (c) real searches
(every get_result() inside exhaustive_search / greedy_search is checked against the
complete push stream, and the returned list against n_designs / score order).
"""
import itertools

from mmv import bootstrap
from mmv import probes
from mmv import searchlab as sl
from mmv import util

PROP = 'C14'
LEVEL = 'exploration'
RULE = ('Cases are batches of HeapDict histories (enumerated: every push sequence over 2 keys x 3 '
        'item values up to the tier length, for every capacity k in 0..3; random: 0-200 pushes, '
        'k in {0,1,2,3,10,100}, int/float/tuple/__lt__-only items, str/int/float keys, interleaved '
        'reads and mutations of returned lists) plus real searches on generated panels. A history is '
        'non-trivial when some key received more than k pushes, an item smaller than everything '
        'retained was pushed, and two pushed items tie at the retention boundary; a search case is '
        'non-trivial when more designs were pushed than n_designs. distinct_nontrivial counts '
        'distinct histories (enumerated ones are distinct by construction; random ones are '
        'de-duplicated by fingerprint) plus distinct non-trivial search inputs.')
ASSUMPTIONS = ['items of one key are mutually comparable through __lt__ (as designs are)',
               'equal keys under == / hash (1, 1.0, True) are one key, as for any dict',
               'trusted base: the sorted-list model (sorted(reverse=True)[:k]) and itertools']
EXHAUSTIVE = {'quick': False, 'thorough': False}
MINIMA = {'quick': {'design_reuse_histories': 300, 'heap_read': 2000, 'heap_push': 10000, 'search_reads': 20, 'distinct_nontrivial': 200},
          'thorough': {'design_reuse_histories': 3000, 'heap_read': 100000, 'heap_push': 500000, 'search_reads': 100, 'distinct_nontrivial': 5000}}

ENUM_LEN = {'quick': 5, 'thorough': 7}
N_ENUM_CHUNKS = {'quick': 16, 'thorough': 64}
N_RANDOM = {'quick': 48, 'thorough': 320}
N_SEARCH = {'quick': 120, 'thorough': 900}


def n_cases(tier):
  return N_ENUM_CHUNKS[tier] + N_RANDOM[tier] + N_SEARCH[tier]


def prepare(tier):
  probes.install_heap()
  probes.install_data()


def gen_case(tier, seed, idx):
  if idx < N_ENUM_CHUNKS[tier]:
    kind = 'enum'
  elif idx < N_ENUM_CHUNKS[tier] + N_RANDOM[tier]:
    kind = 'random'
  else:
    kind = 'search'
  return {'tier': tier, 'seed': seed, 'idx': idx, 'kind': kind}


class Lt:
  """Item defining only __lt__, like TBRMMDesign; equal keys, distinct identities."""

  def __init__(self, k, tag):
    self.k = k
    self.tag = tag

  def __lt__(self, other):
    return self.k < other.k

  def __repr__(self):
    return 'Lt(%r,%r)' % (self.k, self.tag)


def is_nontrivial(pushes, k):
  """pushes: list of (key, sortkey). More than k pushes on a key, a smaller-than-retained
  item pushed, and a tie at the boundary."""
  by = {}
  for key, v in pushes:
    by.setdefault(key, []).append(v)
  for key, vs in by.items():
    if k >= 1 and len(vs) > k:
      s = sorted(vs, reverse=True)
      if s[k - 1] == s[k] and s[-1] < s[k - 1]:
        return True
  return False


def run_history(ops, k, violations, counters, where):
  """Executes one history on the real HeapDict under P-HEAP. ops: ('push', key, item) |
  ('read',) | ('read_mutate', how)."""
  hd = bootstrap.mm('heapdict').HeapDict
  probes.reset()
  h = hd(k)
  shadow = {}
  for op in ops:
    if op[0] == 'push':
      h.push(op[1], op[2])
      shadow.setdefault(op[1], []).append(op[2])
    else:
      res = h.get_result()
      # stand-alone comparison (independent of the probe's own bookkeeping)
      for a in probes.check_heap_result(shadow, k, res, where):
        violations.append({'clause': 'container:' + a['clause'], 'mech': 'heap-' + a['clause'],
                           'detail': a['detail']})
      if op[0] == 'read_mutate':
        how = op[1]
        for key in list(res):
          if how == 'clear':
            res[key].clear()
          elif how == 'reverse':
            res[key].reverse()
          elif how == 'append':
            res[key].append(res[key][0] if res[key] else 0)
        if how == 'drop':
          res.clear()
  res = h.get_result()
  for a in probes.check_heap_result(shadow, k, res, where + ':final'):
    violations.append({'clause': 'container:' + a['clause'], 'mech': 'heap-' + a['clause'],
                       'detail': a['detail']})
  for a in probes.ALARMS:
    violations.append({'clause': 'probe:' + a['clause'], 'mech': 'heap-' + a['clause'],
                       'detail': '%s %s' % (where, a['detail'])})
  counters['histories'] += 1


def run_enum(spec):
  import collections  # pylint: disable=g-import-not-at-top
  tier, idx = spec['tier'], spec['idx']
  L = ENUM_LEN[tier]
  chunks = N_ENUM_CHUNKS[tier]
  symbols = [(key, v) for key in ('a', 7) for v in (1, 2, 3)]
  counters = collections.Counter()
  violations = []
  nontriv = 0
  n = 0
  sample = None
  for length in range(0, L + 1):
    for seq in itertools.product(symbols, repeat=length):
      n += 1
      if n % chunks != idx:
        continue
      for k in (0, 1, 2, 3):
        ops = []
        for j, (key, v) in enumerate(seq):
          ops.append(('push', key, Lt(v, j)))
          if j % 3 == 2:
            ops.append(('read',))
        before = len(violations)
        run_history(ops, k, violations, counters, 'enum len=%d k=%d seq=%r' % (length, k, seq))
        if len(violations) > before and len(violations) > 20:
          break
        if is_nontrivial(list(seq), k):
          nontriv += 1
          if sample is None:
            sample = {'kind': 'enumerated', 'k': k, 'pushes': [list(s) for s in seq]}
  c0 = probes.counts_snapshot()
  return {'nontrivial': False, 'nontrivial_count': nontriv, 'fp': 'enum-%d' % idx,
          'classes': ['enum'], 'counters': dict(counters, heap_push=0, heap_read=0),
          'violations': violations[:20], 'sample': sample, '_probe_counts': c0}


def rand_item(r, kind, j):
  if kind == 'int':
    return r.randrange(-3, 4)             # zero and negative values are values like any other
  if kind == 'float':
    return r.choice([0.5, 1.0, -1.5, float(r.randrange(-2, 3)), r.random(), 0.0, -0.0, -0.25])
  if kind == 'tuple':
    return r.choice([(), (r.randrange(-1, 2),), (r.randrange(-1, 2), r.randrange(0, 3))])
  return Lt(r.randrange(0, 5), j)


def sort_key(item):
  return item.k if isinstance(item, Lt) else item


def run_design_reuse(r, violations, counters):
  """The same TBRMMDesign objects are pushed into one container, re-scored, and pushed into a second one."""
  dm = bootstrap.mm('tbrmmdesign')
  hd = bootstrap.mm('heapdict').HeapDict
  n = r.randrange(3, 9)
  designs = [dm.TBRMMDesign(score=float(r.randrange(0, 50)), treatment_geos={'t%d' % i}, control_geos={'c%d' % i}) for i in range(n)]
  for rnd in range(2):
    k = r.choice([1, 2, 3])
    h = hd(k)
    shadow = {}
    order = list(designs)
    r.shuffle(order)
    for d in order:
      h.push('q', d)
      shadow.setdefault('q', []).append(d)
    res = h.get_result()
    want = sorted((d.score for d in designs), reverse=True)[:k]
    got = [d.score for d in res.get('q', [])]
    if got != want:
      violations.append({'clause': 'container:design-reuse', 'mech': 'heap-design-reuse',
                         'detail': 'round %d: designs with scores %r pushed into a fresh container (k=%d) give %r, the k largest are %r' % (
                             rnd, [d.score for d in order], k, got, want)})
    for d in designs:                    # re-score the same objects for the next container
      d.score = float(r.randrange(0, 50))
  counters['design_reuse_histories'] += 1


def run_random(spec):
  import collections  # pylint: disable=g-import-not-at-top
  r, _ = util.rngs(PROP, spec['seed'], spec['idx'])
  counters = collections.Counter()
  violations = []
  fps = []
  sample = None
  for h in range(40):
    k = r.choice([0, 1, 2, 3, 10, 100])
    n = r.choice([0, 1, 2, 5, 12, 40, 200]) if h % 5 else r.randrange(0, 201)
    kind = r.choice(['int', 'float', 'tuple', 'lt'])
    keys = r.choice([['a'], ['a', 'b'], [1, 2, 'x'], [0.5, 1, 'k', 2.5]])
    ops, pushes = [], []
    for j in range(n):
      key = r.choice(keys)
      item = rand_item(r, kind, j)
      ops.append(('push', key, item))
      pushes.append((key, sort_key(item)))
      u = r.random()
      if u < 0.08:
        ops.append(('read',))
      elif u < 0.14:
        ops.append(('read_mutate', r.choice(['clear', 'reverse', 'append', 'drop'])))
    k_arg = k
    if h % 7 == 3:
      import numpy as np  # pylint: disable=g-import-not-at-top
      k_arg = r.choice([np.int64, np.int32, np.uint8])(k)      # a capacity computed with numpy, e.g. np.minimum(k, n)
      counters['numpy_integer_capacity'] += 1
    run_history(ops, k_arg, violations, counters, 'random k=%d n=%d kind=%s' % (k, n, kind))
    if is_nontrivial(pushes, k):
      f = util.fp([k, [[str(a), str(b)] for a, b in pushes]])
      fps.append(f)
      if sample is None:
        sample = {'kind': 'random', 'k': k, 'item_kind': kind, 'n_pushes': n,
                  'first_pushes': [[str(a), str(b)] for a, b in pushes[:12]]}
    if len(violations) > 20:
      break
  for _ in range(10):
    run_design_reuse(r, violations, counters)
  return {'nontrivial': False, 'nontrivial_fps': sorted(set(fps)), 'fp': 'rand-%d' % spec['idx'],
          'classes': ['random'], 'counters': dict(counters), 'violations': violations[:20],
          'sample': sample}


def run_search_case(spec):
  import collections  # pylint: disable=g-import-not-at-top
  r, g = util.rngs(PROP, spec['seed'], spec['idx'])
  G = r.randrange(2, 6 if spec['tier'] == 'quick' else 7)
  case = sl.make_case(r, g, G, elig_extra='none')
  if spec['idx'] % 3 == 0:
    # very large response units (billions): the last score entry 1 / required impact becomes tiny, scores of designs
    # that agree in the discrete entries differ only far below 1e-8
    from mmv import gen  # pylint: disable=g-import-not-at-top
    pn = case['panel']
    pn['values'] = pn['values'] * 2.0 ** r.choice([24, 28, 32])
    case['frame'] = gen.panel_frame(pn, r, shuffle=True)
    case['params'].pop('budget_range', None)
    case['params']['n_designs'] = r.choice([3, 5, 50, 100000])
  counters = collections.Counter()
  violations = []
  nontrivial = False
  outcome = []
  for which in ('exhaustive', 'greedy'):
    rec = sl.run_search(case, which)
    o = rec['outcome']
    if not o.ok:
      outcome.append(which + ':' + o.exc_type)
      continue
    ds = rec.get('designs')
    if ds is None:
      outcome.append(which + ':unreadable')
      continue
    outcome.append('%s:%d' % (which, min(len(ds), 2)))
    k = case['params']['n_designs']
    pushes = len(rec['events'].get('heap_push', []))
    counters['search_pushes'] += pushes
    counters['search_reads'] += 1
    counters['designs_checked'] += len(ds)
    if len(ds) > k:
      violations.append({'clause': 'cap', 'mech': 'search-cap',
                         'detail': '%s_search returned %d designs with n_designs=%d' % (which, len(ds), k)})
    for i in range(len(ds) - 1):
      a, b = ds[i]['score'], ds[i + 1]['score']
      if sl.has_nan(a) or sl.has_nan(b):
        continue
      if a < b:
        violations.append({'clause': 'order', 'mech': 'search-order',
                           'detail': '%s_search: score increases at position %d: %r < %r' % (which, i, a, b)})
        break
    if len(ds) != min(k, pushes) and not any(sl.has_nan(d['score']) for d in ds):
      violations.append({'clause': 'retained', 'mech': 'search-retained',
                         'detail': '%s_search pushed %d designs, n_designs=%d, returned %d' % (which, pushes, k, len(ds))})
    for a in rec.get('alarms', []):
      if any(sl.has_nan(d['score']) for d in ds):
        continue
      violations.append({'clause': 'probe:' + a['clause'], 'mech': 'heap-' + a['clause'],
                         'detail': '%s_search: %s' % (which, a['detail'])})
    if pushes > k:
      nontrivial = True
  return {'nontrivial': nontrivial, 'fp': util.fp(sl.describe(case, with_frame=False)) ,
          'classes': ['search'], 'counters': dict(counters), 'violations': violations,
          'outcome': ' '.join(outcome),
          'sample': {'kind': 'search', 'case': sl.describe(case, with_frame=False), 'outcome': outcome},
          'case': sl.describe(case) if violations else None}


def run_case(spec):
  before = probes.counts_snapshot()
  if spec['kind'] == 'enum':
    rec = run_enum(spec)
  elif spec['kind'] == 'random':
    rec = run_random(spec)
  else:
    rec = run_search_case(spec)
  after = probes.counts_snapshot()
  rec.pop('_probe_counts', None)
  c = rec.setdefault('counters', {})
  for k in ('heap_push', 'heap_read'):
    c[k] = after.get(k, 0) - before.get(k, 0)
  return rec
