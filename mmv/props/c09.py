"""C09 — searches are total: infeasible inputs give an empty list (or ValueError), not a crash.

Monitor: P-SEARCH at the client boundary records the exception type (with the innermost
repository frame as witness) or the returned list for both searches on hostile inputs;
P-DATA counts aggregation events for the logical-step termination bound.
"""
import collections

from mmv import gen
from mmv import probes
from mmv import searchlab as sl
from mmv import util

PROP = 'C09'
LEVEL = 'exploration'
CLASSES = ['tiny', 'no_control', 'no_treatment', 'all_excluded', 'empty_admitted', 'size_beyond',
           'ratio_unsat', 'share_budget_impossible', 'n_geos_max_2', 'long_test', 'window_exact',
           'hostile_matrix', 'iroas_zero', 'fixed_overflow', 'integral_floats', 'late_start_geo', 'huge_tolerance', 'orthogonal',
           'wide_index', 'subset_table_ngeos', 'random']
RULE = ('Each case draws one hostile input class (%s), builds fresh data / parameter / matched-markets '
        'objects and runs exhaustive_search and greedy_search at the client boundary. Series are never '
        'constant and the analysis window always holds >= n_test + 3 points, so the property applies to '
        'every case. Any exception other than ValueError, or more aggregation events than the logical-step '
        'bound, is a violation. Non-trivial: at least one search ended in [] or ValueError (the input really '
        'was infeasible); distinct by input description.' % ', '.join(CLASSES))
ASSUMPTIONS = ['an input whose data object cannot be constructed is not an "accepted data object" (owned by C15) and is only counted',
               'termination is judged on logical steps (aggregation events); the wall-clock watchdog only yields inconclusive']
EXHAUSTIVE = {'quick': False, 'thorough': False}
MINIMA = {'quick': {'shared_data_searches': 40, 'searches': 500, 'set:classes_seen': len(CLASSES), 'distinct_nontrivial': 150, 'outcome_empty': 50,
                    'outcome_designs': 50},
          'thorough': {'shared_data_searches': 400, 'searches': 5000, 'set:classes_seen': len(CLASSES), 'distinct_nontrivial': 1500, 'outcome_empty': 500,
                       'outcome_designs': 500}}
N = {'quick': 420, 'thorough': 4200}
CASE_TIMEOUT = {'quick': 300, 'thorough': 900}


def n_cases(tier):
  return N[tier]


def gen_case(tier, seed, idx):
  return {'tier': tier, 'seed': seed, 'idx': idx}


def prepare(tier):
  probes.install_heap()
  probes.install_data()


def make_hostile(r, g, cls, tier):
  maxg = 6 if tier == 'quick' else 7
  G = r.randrange(2, maxg + 1)
  kwargs = {}
  if cls == 'tiny':
    G = r.choice([1, 1, 2, 2])
  if cls == 'long_test':
    G = r.randrange(2, 5)
    kwargs['n_dates'] = r.randrange(101, 121)
  if cls == 'orthogonal':
    return make_orthogonal(r, g)
  if cls == 'wide_index':
    return make_wide_index(r, g)
  if cls == 'subset_table_ngeos':
    # the eligibility table covers only some of the geos in the data, and n_geos_max binds
    G = r.randrange(4, maxg + 1)
    case = sl.make_case(r, g, G, elig_extra='subset', elig_mode=r.choice(['mixed', 'mostly_ctx', 'ctx', 'hostile']))
    case['params']['n_geos_max'] = r.randrange(2, G - 1)
    for k_ in ('budget_range', 'treatment_share_range'):
      if r.random() < 0.7:
        case['params'].pop(k_, None)
    return case
  case = sl.make_case(r, g, G, elig_extra='none', **kwargs)
  ids = [str(i) for i in case['panel']['ids']]
  kw = case['params']
  D = len(case['panel']['dates'])
  win = min(D, kw.get('n_pretest_max', 90))

  def rows_from(weights):
    return {gid: gen.weighted(r, weights) for gid in ids}

  if cls == 'no_control':
    case['elig_rows'] = rows_from([('tx', 3), ('t_fixed', 2), ('x_fixed', 1)])
  elif cls == 'no_treatment':
    case['elig_rows'] = rows_from([('cx', 3), ('c_fixed', 2), ('x_fixed', 1)])
  elif cls == 'all_excluded':
    case['elig_rows'] = {gid: 'x_fixed' for gid in ids}
  elif cls == 'empty_admitted':
    case['elig_rows'] = rows_from([('ctx', 3), ('cx', 1), ('tx', 1), ('x_fixed', 1)])
    if r.random() < 0.5:
      kw['treatment_share_range'] = (1e-9, 1e-8)
    else:
      kw['budget_range'] = (0.0, 1e-9)
  elif cls == 'size_beyond':
    if r.random() < 0.5:
      kw['treatment_geos_range'] = (G + r.randrange(0, 3), G + 5)
    else:
      kw['control_geos_range'] = (G + r.randrange(0, 3), G + 5)
    if r.random() < 0.3:
      kw['treatment_geos_range'] = (G, G)
  elif cls == 'ratio_unsat':
    case['elig_rows'] = rows_from([('c_fixed', 4), ('t_fixed', 1), ('ctx', 1)])
    kw['geo_ratio_tolerance'] = r.choice([0.01, 0.001, 0.1])
  elif cls == 'share_budget_impossible':
    if r.random() < 0.5:
      kw['treatment_share_range'] = r.choice([(1e-9, 1e-8), (0.999, 0.9999), (0.5, 0.5000001)])
    if r.random() < 0.6 or 'treatment_share_range' not in kw:
      kw['budget_range'] = r.choice([(0.0, 1e-9), (1e12, 1e13), (1e-9, 2e-9)])
  elif cls == 'n_geos_max_2':
    kw['n_geos_max'] = 2
  elif cls == 'long_test':
    kw['n_pretest_max'] = r.choice([D, D + 5, 200])
    kw['n_test'] = r.randrange(98, D - 3 + 1)
    kw.pop('budget_range', None)
  elif cls == 'window_exact':
    kw['n_test'] = max(1, win - 3)
    kw.pop('budget_range', None)
  elif cls == 'hostile_matrix':
    case['elig_rows'] = gen.gen_elig_rows(r, ids, 'hostile')
  elif cls == 'iroas_zero':
    kw['iroas'] = 0.0
  elif cls == 'integral_floats':
    # integer-valued floats are accepted by the parameter class (e.g. values read from JSON / pandas)
    which = r.sample(['n_test', 'n_pretest_max', 'n_geos_max', 'n_designs', 'treatment_geos_range', 'control_geos_range'],
                     r.randrange(1, 4))
    for f in which:
      if f == 'n_test':
        kw['n_test'] = float(kw['n_test'])
      elif f == 'n_pretest_max':
        kw['n_pretest_max'] = float(kw.get('n_pretest_max', 90))
      elif f == 'n_geos_max':
        kw['n_geos_max'] = float(kw.get('n_geos_max', r.randrange(2, G + 2)))
      elif f == 'n_designs':
        kw['n_designs'] = float(kw['n_designs'])
      else:
        lo, hi = kw.get(f, (1, r.randrange(1, G + 1)))
        kw[f] = r.choice([(float(lo), float(hi)), (int(lo), float(hi)), (float(lo), int(hi))])
  elif cls == 'late_start_geo':
    # a geo that only starts reporting a few days before the end of the window (zero before): its series is not
    # constant, but the part of it that precedes the last n_test dates is
    pn = case['panel']
    i = r.randrange(len(pn['ids']))
    k = r.randrange(1, max(2, kw['n_test'] + 1))
    pn['values'][i, :-k] = 0.0
    if r.random() < 0.5:
      pn['present'][i, :-k] = False
      if not pn['present'][:, 0].any():
        pn['present'][(i + 1) % len(pn['ids']), 0] = True
    case['frame'] = gen.panel_frame(pn, r, shuffle=True)
    kw.pop('budget_range', None)
    kw.pop('treatment_share_range', None)
  elif cls == 'huge_tolerance':
    import sys as _sys
    big = r.choice([1e308, _sys.float_info.max, 1e300, 1e155])
    if r.random() < 0.7:
      kw['geo_ratio_tolerance'] = big
    if r.random() < 0.5:
      kw['volume_ratio_tolerance'] = r.choice([1e308, _sys.float_info.max, 1e200])
    if r.random() < 0.3:
      kw['iroas'] = r.choice([1e-300, 1e300])
  elif cls == 'fixed_overflow':
    case['elig_rows'] = rows_from([('t_fixed', 3), ('c_fixed', 3), ('ct', 2), ('ctx', 1)])
    kw['treatment_geos_range'] = (1, r.choice([1, 2]))
    if r.random() < 0.5:
      kw['control_geos_range'] = (1, r.choice([1, 2]))
  return case


def make_orthogonal(r, g):
  """Small-integer on/off series built from Walsh functions: every pair of groups has a correlation of EXACTLY 0.0
  (all sums are exact in floating point). The series are not constant and the window is long enough."""
  import numpy as np
  D = r.choice([8, 16])
  G = r.randrange(2, 6)
  case = sl.make_case(r, g, G, elig_extra='none', n_dates=D, cls='continuous', allow=('size',),
                      elig_mode=r.choice(['none', 'ctx', 'mostly_ctx']))
  rows = r.sample(range(1, D), G)
  vals = np.zeros((G, D))
  for i, w in enumerate(rows):
    h = np.array([(-1.0) ** bin(w & j).count('1') for j in range(D)])
    vals[i] = r.randrange(10, 200) + r.randrange(1, 6) * h
  pn = case['panel']
  pn['values'] = vals
  pn['present'] = np.ones((G, D), dtype=bool)
  pn['dups'] = None
  pn['features'] = list(pn.get('features') or []) + ['walsh']
  case['frame'] = gen.panel_frame(pn, r, shuffle=True)
  kw = case['params']
  for k in ('budget_range', 'treatment_share_range', 'n_geos_max', 'volume_ratio_tolerance', 'n_pretest_max'):
    kw.pop(k, None)
  kw['n_test'] = r.randrange(1, D - 3 + 1)
  case['prior_long_window'] = False
  return case


def make_wide_index(r, g):
  """More than 64 geos take part in the exhaustive search, which stays small because nearly all of them may only
  be control geos or left out, the control group has exactly one geo and only the three smallest geos may be
  treated; the budget admits single treatment geos but not every pair."""
  import numpy as np
  G = r.randrange(67, 78)
  case = sl.make_case(r, g, G, elig_extra='none', n_dates=r.randrange(15, 30), cls='continuous', allow=('size',), elig_mode='ctx',
                      id_style=r.choice(['int', 'numstr']))
  pn = case['panel']
  ids = [str(i) for i in pn['ids']]
  # geo order follows volume: the three smallest geos come last (index >= 64); they are also the noisiest, so that a
  # budget that admits every single geo still rules out pairs of them
  present = pn['present']
  means = np.array([float(np.where(present[i], pn['values'][i], 0.0).mean()) for i in range(G)])
  order = sorted(range(G), key=lambda i: means[i])
  small = [ids[i] for i in order[:3]]
  for i in order[3:]:
    m = float(pn['values'][i].mean())
    pn['values'][i] = m + 0.02 * (pn['values'][i] - m)
  pn['dups'] = None
  case['frame'] = gen.panel_frame(pn, r, shuffle=True)
  case['elig_rows'] = {gid: ('tx' if gid in small else 'cx') for gid in ids}
  kw = {k: v for k, v in case['params'].items() if k in ('n_test', 'iroas', 'n_designs', 'sig_level', 'power_level', 'flevel', 'min_corr', 'rho_max')}
  kw['treatment_geos_range'] = (1, 3)
  kw['control_geos_range'] = (1, 1)
  case['params'] = kw
  case['preset_geo_index'] = False
  case['prior_long_window'] = False
  truth = sl.Truth(case)
  if truth.iroas > 0:
    singles = max(truth.opt_impact([gid]) for gid in truth.ids)
    pairs = max(truth.opt_impact([a, b]) for a in small for b in small if a < b)
    top = max(pairs, singles * 1.2)
    kw['budget_range'] = (0.0, (singles + r.choice([0.3, 0.6]) * (top - singles)) / truth.iroas)
  return case


def run_case(spec):
  r, g = util.rngs(PROP, spec['seed'], spec['idx'])
  cls = CLASSES[spec['idx'] % len(CLASSES)]
  case = make_hostile(r, g, cls, spec['tier'])
  G = len(case['panel']['ids'])
  counters = collections.Counter()
  violations = []
  outcomes = []
  nontrivial = False
  shared = spec['idx'] % 4 == 1      # A.search -> B.search (same data object) -> A.search, last call judged
  for which in ('exhaustive', 'greedy'):
    rec = sl.run_search(case, which, interleave=(r if shared else None))
    counters['shared_data_searches'] += bool(rec.get('interleaved'))
    o = rec['outcome']
    if rec.get('stage') == 'build':
      # which object refused?  data/parameters not accepted -> outside the property; matched-markets
      # constructor refusing with ValueError is a rejection; anything else from it is a crash.
      frames = util.repo_frames(o.exc) if o.exc is not None else []
      in_mm_ctor = any('tbrmatchedmarkets.py' in f and '__init__' in f for f in frames)
      if not in_mm_ctor:
        outcomes.append(which + ':not-accepted(' + o.exc_type + ')')
        counters['not_accepted'] += 1
        continue
    counters['searches'] += 1
    if o.ok:
      n = len(o.value)
      outcomes.append('%s:%s' % (which, 'designs' if n else 'empty'))
      counters['outcome_designs' if n else 'outcome_empty'] += 1
      if not n:
        nontrivial = True
      if not isinstance(o.value, list):
        violations.append({'clause': 'return-type', 'mech': 'search-return-type', 'detail': '%s_search returned %s' % (which, type(o.value).__name__)})
    elif o.exc_type == 'ValueError':
      outcomes.append(which + ':ValueError')
      counters['outcome_valueerror'] += 1
      nontrivial = True
    else:
      fr = util.innermost_repo_frame(o.exc) or '?'
      func = fr.split(' in ')[-1]
      fname = fr.split(':')[0]
      outcomes.append('%s:%s' % (which, o.exc_type))
      violations.append({'clause': 'exception-type', 'mech': '%s:%s@%s:%s' % (which, o.exc_type, fname, func),
                         'detail': '[%s] %s_search raised %s' % (cls, which, o.describe())})
    ev = rec.get('events') or {}
    steps = len(ev.get('agg_ts', []))
    counters['agg_events'] += steps
    bound = 10 * (G + 2) ** 3 if which == 'greedy' else 2 * 3 ** G + 2 ** G + 10
    if steps > bound:
      violations.append({'clause': 'step-bound', 'mech': which + ':step-bound',
                         'detail': '%s_search made %d aggregations on %d geos (bound %d)' % (which, steps, G, bound)})
  desc = sl.describe(case, with_frame=False)
  return {'nontrivial': nontrivial, 'fp': util.fp(desc), 'classes': [cls], 'counters': dict(counters),
          'sets': {'classes_seen': [cls]}, 'maxima': {'agg_events_per_case': counters['agg_events']},
          'outcome': '%s | %s' % (cls, ' '.join(outcomes)), 'violations': violations,
          'sample': {'class': cls, 'case': desc, 'outcomes': outcomes},
          'case': sl.describe(case) if violations else None}
