"""C16 — eligibility tables are validated and partitioned correctly.

Oracle: the acceptance predicate and a row -> class table written from the docstring;
workload: complete enumeration of tables over the eight possible rows (<= 3 geos quick,
<= 4 thorough), column- and index-keyed, x all ordered subsets, plus malformed variants.
"""
import collections
import itertools

import numpy as np
import pandas as pd

from mmv import bootstrap
from mmv import gen
from mmv import util

PROP = 'C16'
LEVEL = 'exploration'
RULE = ('Enumerated: every table whose rows are drawn from the 8 possible (control, treatment, exclude) '
        'rows over 0..3 geos (quick) / 0..4 (thorough), each column-keyed and index-keyed, with int or '
        'str IDs; for every accepted table every ordered subset of its geos (including the empty one and '
        'None) is queried with and without indices. Malformed variants are generated per case: each '
        'column missing, duplicate IDs (also 1 vs "1"), duplicate column names, entries 2/-1/0.5/NaN/'
        'None/"1"/True/1.0, extra columns, unnamed index. Non-trivial = accepted table with >= 3 distinct '
        'classes queried with a proper re-ordered subset, or a malformed variant; distinct by (table, '
        'keying, subset) / variant fingerprint.')
ASSUMPTIONS = ['subsets are passed as lists of string IDs (tuples are documented for geo_index only)',
               'True == 1 and 1.0 == 1 count as entries in {0, 1} (the statement says entries equal 0 or 1)']
EXHAUSTIVE = {'quick': True, 'thorough': True}
MINIMA = {'quick': {'tables_with_permuted_columns': 200, 'tables': 1000, 'accepted': 700, 'rejected': 300, 'subset_queries': 5000,
                    'malformed': 300, 'distinct_nontrivial': 500},
          'thorough': {'tables_with_permuted_columns': 2000, 'tables': 9000, 'accepted': 5000, 'rejected': 3500, 'subset_queries': 100000,
                       'malformed': 2000, 'distinct_nontrivial': 5000}}
MAXG = {'quick': 3, 'thorough': 4}
CHUNKS = {'quick': 32, 'thorough': 128}

ALL_ROWS = list(itertools.product((0, 1), repeat=3))   # includes (0,0,0)
CLASS_NAMES = ['c_fixed', 't_fixed', 'x_fixed', 'ct', 'cx', 'ctx', 'tx']


def n_cases(tier):
  return CHUNKS[tier]


def gen_case(tier, seed, idx):
  return {'tier': tier, 'seed': seed, 'idx': idx}


def expected_accept(rows):
  return all(sum(r) > 0 for r in rows)


def ordered_subsets(ids):
  out = [[]]
  for k in range(1, len(ids) + 1):
    out.extend(list(p) for p in itertools.permutations(ids, k))
  return out


def check_assignment(res, geos_ref, rowmap, violations, where):
  """res: GeoAssignments; geos_ref: list of references (IDs or positions) in order;
  rowmap: ref -> (c,t,x)."""
  refs = set(geos_ref)
  got = {name: set(getattr(res, name)) for name in CLASS_NAMES}
  if set(res.all) != refs:
    violations.append({'clause': 'all', 'mech': 'elig-all', 'detail': '%s: all=%r, wanted %r' % (where, sorted(map(str, res.all)), sorted(map(str, refs)))})
    return
  union = set()
  total = 0
  for name in CLASS_NAMES:
    union |= got[name]
    total += len(got[name])
  if union != refs or total != len(refs):
    violations.append({'clause': 'partition', 'mech': 'elig-partition',
                       'detail': '%s: classes do not partition the geos: %r' % (where, {k: sorted(map(str, v)) for k, v in got.items()})})
    return
  for ref in geos_ref:
    want = gen.ROW_CLASS[tuple(rowmap[ref])]
    if ref not in got[want]:
      have = [n for n in CLASS_NAMES if ref in got[n]]
      violations.append({'clause': 'class', 'mech': 'elig-class',
                         'detail': '%s: geo %r with row %r reported in %r, wanted %s' % (where, ref, rowmap[ref], have, want)})
      return
  for name, col in (('c', 0), ('t', 1), ('x', 2)):
    want = {ref for ref in geos_ref if rowmap[ref][col] == 1}
    if set(getattr(res, name)) != want:
      violations.append({'clause': 'membership', 'mech': 'elig-membership',
                         'detail': '%s: set %s = %r, wanted %r' % (where, name, sorted(map(str, getattr(res, name))), sorted(map(str, want)))})
      return


def run_table(GE, ids, rows, index_keyed, counters, violations, nontrivial, colperm=None):
  df = pd.DataFrame({'geo': ids, 'control': [r[0] for r in rows], 'treatment': [r[1] for r in rows],
                     'exclude': [r[2] for r in rows]})
  if index_keyed:
    df = df.set_index('geo')
  if colperm is not None:
    cols = list(df.columns)
    df = df[[cols[i] for i in colperm if i < len(cols)] + [c for j, c in enumerate(cols) if j >= len(colperm)]]
    counters['tables_with_permuted_columns'] += 1
  before = df.copy()
  out = util.call(GE, df)
  counters['tables'] += 1
  want = expected_accept(rows)
  where = 'table ids=%r rows=%r index_keyed=%s columns=%s' % (ids, rows, index_keyed, list(df.columns))
  if not df.equals(before):
    violations.append({'clause': 'input-mutated', 'mech': 'elig-input-mutated', 'detail': where})
  if want and not out.ok:
    violations.append({'clause': 'accept', 'mech': 'elig-rejects-valid', 'detail': '%s rejected: %s' % (where, out.describe())})
    return
  if not want:
    counters['rejected'] += 1
    if out.ok:
      violations.append({'clause': 'reject', 'mech': 'elig-accepts-invalid', 'detail': '%s accepted' % where})
    elif out.exc_type != 'ValueError':
      violations.append({'clause': 'reject-type', 'mech': 'elig-reject-type:' + out.exc_type, 'detail': '%s: %s' % (where, out.describe())})
    return
  counters['accepted'] += 1
  ge = out.value
  sids = [str(i) for i in ids]
  rowmap = dict(zip(sids, rows))
  n_classes = len({gen.ROW_CLASS[tuple(r)] for r in rows})
  # data attribute: indexed by geo (str), the three columns
  try:
    d = ge.data
    if list(d.index) != sids or list(d.columns) != ['control', 'treatment', 'exclude']:
      violations.append({'clause': 'data', 'mech': 'elig-data', 'detail': '%s: data index/columns %r %r' % (where, list(d.index), list(d.columns))})
  except Exception as e:  # pylint: disable=broad-except
    violations.append({'clause': 'data', 'mech': 'elig-data', 'detail': '%s: %r' % (where, e)})
  res = util.call(ge.get_eligible_assignments)
  counters['subset_queries'] += 1
  if not res.ok:
    violations.append({'clause': 'query', 'mech': 'elig-query-raises', 'detail': '%s default query: %s' % (where, res.describe())})
  else:
    check_assignment(res.value, sids, rowmap, violations, where + ' geos=None')
    # the caller edits the answer it got; the next default answer must still describe the table
    try:
      res.value.all.add('not-a-geo')
      res.value.c.clear()
      res.value.ctx = set()
    except Exception:  # pylint: disable=broad-except
      pass
    res2 = util.call(ge.get_eligible_assignments)
    counters['subset_queries'] += 1
    counters['answers_edited'] += 1
    if res2.ok:
      nb = len(violations)
      check_assignment(res2.value, sids, rowmap, violations, where + ' geos=None (after the caller edited the previous answer)')
      for v in violations[nb:]:
        v['mech'] = 'elig-answer-aliasing'
  for sub in ordered_subsets(sids):
    if len(violations) > 10:
      return
    for indices in (False, True):
      counters['subset_queries'] += 1
      res = util.call(ge.get_eligible_assignments, list(sub), indices=indices)
      w = '%s subset=%r indices=%s' % (where, sub, indices)
      if not res.ok:
        mech = 'elig-empty-subset' if not sub else 'elig-query-raises'
        violations.append({'clause': 'query', 'mech': mech, 'detail': '%s: %s' % (w, res.describe())})
        continue
      if indices:
        refs = list(range(len(sub)))
        rmap = {i: rowmap[gid] for i, gid in enumerate(sub)}
      else:
        refs = list(sub)
        rmap = rowmap
      nb = len(violations)
      check_assignment(res.value, refs, rmap, violations, w)
      if len(violations) > nb and not sub:
        for v in violations[nb:]:
          v['mech'] = 'elig-empty-subset'
      if n_classes >= 3 and 0 < len(sub) < len(sids) and list(sub) != [s for s in sids if s in sub]:
        nontrivial.add(util.fp([ids, rows, index_keyed, sub, indices]))


def malformed_variants(r):
  """Yields (label, frame, expected) with expected in {'reject', 'accept'}."""
  n = r.randrange(1, 4)
  ids = gen.make_ids(r, n, r.choice(['int', 'str', 'numstr']))
  rows = [r.choice(ALL_ROWS[1:]) for _ in range(n)]
  base = pd.DataFrame({'geo': ids, 'control': [q[0] for q in rows], 'treatment': [q[1] for q in rows],
                       'exclude': [q[2] for q in rows]})
  for col in ['geo', 'control', 'treatment', 'exclude']:
    yield 'missing-' + col, base.drop(columns=[col]), 'reject'
  yield 'missing-geo-unnamed-index', base.drop(columns=['geo']).reset_index(drop=True), 'reject'
  d = pd.concat([base, base.iloc[[0]]], ignore_index=True)
  yield 'duplicate-id', d, 'reject'
  if n >= 1:
    d = base.copy()
    d['geo'] = d['geo'].astype(object)
    d2 = pd.concat([d, pd.DataFrame({'geo': [str(ids[0])], 'control': [1], 'treatment': [1], 'exclude': [1]})],
                   ignore_index=True)
    d2.loc[0, 'geo'] = ids[0]
    yield 'duplicate-id-after-str', d2, 'reject'
  d = base.copy()
  d.insert(1, 'control2', 1)
  d = d.rename(columns={'control2': 'control'})
  yield 'duplicate-column', d, 'reject'
  d = base.set_index('geo')
  d['geo'] = list(d.index)
  yield 'geo-as-index-and-column', d, 'reject'
  for bad, exp in [(2, 'reject'), (-1, 'reject'), (0.5, 'reject'), (float('nan'), 'reject'), (None, 'reject'),
                   ('1', 'reject'), ('0', 'reject'), (True, 'accept'), (1.0, 'accept'), (np.int64(1), 'accept'),
                   (3, 'reject'), (1.0000001, 'reject')]:
    d = base.copy()
    col = r.choice(['control', 'treatment', 'exclude'])
    d[col] = d[col].astype(object)
    d.loc[r.randrange(n), col] = bad
    # the edited cell may create an all-zero row only if it is falsy; with the accepted values it is 1
    yield 'entry-%r' % (bad,), d, exp
  # two illegal entries at once, of types that cannot be ordered against each other
  for pair in [(None, 'x'), ('yes', 2), (float('nan'), 'no'), (2, None), ((1,), 'a'), (b'1', 5)]:
    d = base.copy()
    cells = [(i, c) for i in range(n) for c in ('control', 'treatment', 'exclude')]
    (i1, c1), (i2, c2) = r.sample(cells, 2)
    for c in {c1, c2}:
      d[c] = d[c].astype(object)
    d.at[i1, c1] = pair[0]
    d.at[i2, c2] = pair[1]
    yield 'entries-%r+%r' % pair, d, 'reject'
  # geo is one level of a multi-level row index (e.g. the result of groupby(['region', 'geo']).max())
  d = base.copy()
  d['region'] = [r.choice(['north', 'south']) for _ in range(n)]
  yield 'multiindex-region-geo', d.set_index(['region', 'geo']), 'accept'
  yield 'multiindex-geo-region', d.set_index(['geo', 'region']), 'accept'
  d = base.copy()
  d.index = pd.Index(range(100, 100 + n), name='row_id')
  yield 'named-foreign-index', d, 'accept'
  d = base.copy()
  d['notes'] = 'x'
  d['weight'] = 3.5
  yield 'extra-columns', d, 'accept'
  d = base.copy()
  d = d[['exclude', 'treatment', 'geo', 'control']]
  yield 'column-order', d, 'accept'
  d = base.iloc[0:0]
  yield 'no-rows', d, 'accept'
  d = base.copy()
  d.loc[r.randrange(n), ['control', 'treatment', 'exclude']] = 0
  yield 'zero-row', d, 'reject'


def run_case(spec):
  tier, idx = spec['tier'], spec['idx']
  r, _ = util.rngs(PROP, spec['seed'], idx)
  GE = bootstrap.mm('geoeligibility').GeoEligibility
  counters = collections.Counter()
  violations = []
  nontrivial = set()
  chunks = CHUNKS[tier]
  n = 0
  sample = None
  for G in range(0, MAXG[tier] + 1):
    for rows in itertools.product(ALL_ROWS, repeat=G):
      n += 1
      if n % chunks != idx:
        continue
      for index_keyed in (False, True):
        style = 'int' if (n + index_keyed) % 2 else 'str'
        ids = [10, 2, 1, 33][:G] if style == 'int' else ['b', 'a', 'zz', 'C'][:G]
        perm = None
        if n % 3 == 0:
          k = 3 if index_keyed else 4
          perm = r.sample(range(k), k)              # columns arrive in another order
        run_table(GE, ids, list(rows), index_keyed, counters, violations, nontrivial, colperm=perm)
      if sample is None and G == MAXG[tier] and expected_accept(rows):
        sample = {'kind': 'enumerated table', 'rows': [list(q) for q in rows],
                  'classes': [gen.ROW_CLASS[tuple(q)] for q in rows],
                  'ordered_subsets_queried': len(ordered_subsets(list(range(G)))) * 2}
      if len(violations) > 30:
        break
  # malformed variants
  for rep in range(6 if tier == 'quick' else 12):
    for label, frame, exp in malformed_variants(r):
      counters['malformed'] += 1
      before = frame.copy()
      out = util.call(GE, frame)
      where = 'malformed[%s] %s' % (label, frame.to_dict('list'))
      if exp == 'reject':
        if out.ok:
          violations.append({'clause': 'reject', 'mech': 'elig-accepts-invalid:' + label.split('-')[0], 'detail': where[:300]})
        elif out.exc_type != 'ValueError':
          violations.append({'clause': 'reject-type', 'mech': 'elig-reject-type:%s:%s' % (label.split('-')[0], out.exc_type),
                             'detail': '%s -> %s' % (where[:200], out.describe())})
      else:
        if not out.ok:
          violations.append({'clause': 'accept', 'mech': 'elig-rejects-valid:' + label.split('-')[0],
                             'detail': '%s -> %s' % (where[:200], out.describe())})
      try:
        same = frame.equals(before)
      except Exception:  # pylint: disable=broad-except
        same = True
      if not same:
        violations.append({'clause': 'input-mutated', 'mech': 'elig-input-mutated', 'detail': where[:300]})
      nontrivial.add(util.fp([label, frame.astype(str).to_dict('list')]))
  return {'nontrivial': False, 'nontrivial_fps': sorted(nontrivial), 'fp': 'chunk-%d' % idx,
          'classes': ['enumerated+malformed'], 'counters': dict(counters), 'violations': violations[:30],
          'sample': sample}
