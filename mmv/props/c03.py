"""C03 — exhaustive search returns the best-scoring feasible designs, best first.

Oracle: an independent brute force over the admitted geos (itertools.product of per-geo
options, exact-rational size / ratio tests, raw-frame shares, independent closed-form
budgets, pristine shadow scoring). P-HEAP checks the container against the push stream.
"""
import collections

from mmv import probes
from mmv import searchlab as sl
from mmv import searchprops as sp
from mmv import util

PROP = 'C03'
LEVEL = 'exploration'
RULE = ('Generated panels with 1-6 admitted geos (quick) / up to 8 (thorough), all eligibility matrices, all '
        'constraint mixes, n_designs in {1,2,3,5,50,1e5}, duplicate-series panels for exact ties, budget ranges '
        'placed so that the optimistic screen prunes some groups. The real exhaustive_search result is compared with '
        'the brute-force feasible set: enough designs, all distinct and feasible, non-increasing order, reported '
        'scores equal oracle scores, no feasible non-omittable design outside the result scores strictly higher than '
        'the worst returned one (omittable per the statement: treatment group, or an admissible sub-group, with '
        'optimistic budget outside the range; a sub-group failing the share range is not admissible). A constructed '
        'class has geos moving in opposite directions so that a super-group needs less budget than its over-budget, '
        'share-inadmissible sub-group. Non-trivial: |feasible| > k, or pruning applies, or a tie at the '
        'boundary; distinct by input description.')
ASSUMPTIONS = ['the admitted set is taken as observed through geos_within_constraints (documented pre-selection, checked in C01)',
               'designs whose feasibility or discrete score entries are within 1e-9 of flipping are neither demanded nor forbidden',
               'scoring of brute-force designs uses a pristine second copy of the diagnostics code (formula anchored by C05/C06)']
EXHAUSTIVE = {'quick': False, 'thorough': False}
MINIMA = {'quick': {'misaligned_budget_cases': 6, 'scaled_copy_cases': 10, 'searches_after_caller_edits': 40, 'prune_trap_cases': 15, 'rounding_window_cases': 8, 'prior_call_cases': 60, 'shared_data_searches': 40, 'compared': 200, 'brute_designs': 3000, 'distinct_nontrivial': 80, 'cases_with_pruning': 8},
          'thorough': {'misaligned_budget_cases': 60, 'scaled_copy_cases': 100, 'searches_after_caller_edits': 400, 'prune_trap_cases': 150, 'rounding_window_cases': 80, 'prior_call_cases': 500, 'shared_data_searches': 400, 'compared': 2500, 'brute_designs': 200000, 'distinct_nontrivial': 1000, 'cases_with_pruning': 100}}
N = {'quick': 640, 'thorough': 4800}
CASE_TIMEOUT = {'quick': 300, 'thorough': 1200}


def n_cases(tier):
  return N[tier]


def gen_case(tier, seed, idx):
  return {'tier': tier, 'seed': seed, 'idx': idx}


def prepare(tier):
  probes.install_heap()
  probes.install_data()
  probes.install_impact()


def degenerate_pair_exists(truth, admitted):
  """True when some size-admissible (T, C) pair - feasible or not - has constant or perfectly correlated series: the
  search computes the required impact of a pair before its budget test, so such a pair makes it raise ValueError."""
  import numpy as np
  pairs, amb = sl.enumerate_assignments(truth, admitted)
  for T, C in pairs + amb:
    x, y = truth.series(C), truth.series(T)
    if np.ptp(x) == 0 or np.ptp(y) == 0:
      return True
    c = np.corrcoef(x, y)[0, 1]
    if not (abs(c) < 1 - 1e-12):
      return True
  return False


def scaled_copy_case(r, g, G):
  """Two treatment-only geos, one a copy of the other scaled by 1 - d with d in 1e-10 .. 5e-10: designs that differ
  only in which of the two is treated have last score entries a few 1e-10 apart (relative) - distinct, not tied."""
  from mmv import gen
  case = sl.make_case(r, g, G, cls='continuous', allow=('size',), elig_mode='ctx', elig_extra='none', n_dates=r.randrange(15, 60))
  pn = case['panel']
  if any(f.startswith('unit=') for f in pn['features']):
    return None
  a, b = r.sample(range(G), 2)
  d = r.choice([1e-10, 2e-10, 5e-10])
  pn['values'][b] = pn['values'][a] * (1.0 - d)
  pn['present'][:] = True
  pn['dups'] = None
  pn['features'] = list(pn['features']) + ['scaled_copy:%d,%d,%g' % (a, b, d)]
  ids = [str(i) for i in pn['ids']]
  case['elig_rows'] = {gid: ('tx' if k in (a, b) else r.choice(['cx', 'ctx', 'cx'])) for k, gid in enumerate(ids)}
  case['frame'] = gen.panel_frame(pn, r, shuffle=True)
  kw = {k: v for k, v in case['params'].items() if k not in ('treatment_geos_range', 'control_geos_range', 'geo_ratio_tolerance',
                                                             'volume_ratio_tolerance', 'budget_range', 'n_geos_max',
                                                             'treatment_share_range')}
  kw['n_designs'] = r.choice([1, 1, 2, 3])
  case['params'] = kw
  case['prior_long_window'] = False
  return case


def misaligned_budget_case(r, g, G):
  """One of the larger geos takes no part in the search (must be excluded, or has no eligibility row), so positions
  in the search's geo index are shifted against positions in the data table; the upper budget bound lies between the
  single-geo budgets of two geos that are neighbours in the data order."""
  case = sl.make_case(r, g, G, cls='continuous', allow=('size',), elig_mode='ctx', elig_extra='none', n_dates=r.randrange(15, 60))
  pn = case['panel']
  ids = [str(i) for i in pn['ids']]
  kw = {k: v for k, v in case['params'].items() if k not in ('treatment_geos_range', 'control_geos_range', 'geo_ratio_tolerance',
                                                             'volume_ratio_tolerance', 'budget_range', 'n_geos_max',
                                                             'treatment_share_range')}
  case['params'] = kw
  t0 = sl.Truth(case)
  if t0.iroas <= 0:
    return None
  order = sorted(ids, key=lambda gid: -t0.means[gid])          # data order: decreasing volume
  out = order[r.randrange(0, max(1, len(order) // 2))]
  rows = {gid: 'ctx' for gid in ids}
  if r.random() < 0.6:
    rows[out] = 'x_fixed'
  else:
    del rows[out]
  case['elig_rows'] = rows
  case['extra'] = {}
  case['preset_geo_index'] = False
  case['prior_long_window'] = False
  rest = [gid for gid in order if gid != out]
  pairs = []
  for j in range(len(order) - 1):
    a_, b_ = order[j], order[j + 1]
    if b_ in rest and order.index(b_) > order.index(out):
      ia, ib = t0.opt_impact([a_]), t0.opt_impact([b_])
      if ia > ib * 1.02:
        pairs.append((ia, ib))
  if not pairs:
    return None
  ia, ib = r.choice(pairs)
  kw['budget_range'] = (0.0, (ib + r.choice([0.3, 0.5, 0.7]) * (ia - ib)) / t0.iroas)
  kw['n_designs'] = r.choice([3, 50, 100000])
  return case


def prune_trap_case(r, g):
  """A panel where a LARGER treatment group needs LESS budget than one of its sub-groups (geos moving in opposite
  directions), the sub-group P = {a, b} being over budget but below the lower share bound (so not an admissible
  treatment group), the super-group S = {a, b, a', b'} in budget and within the share range: designs on S are
  feasible and may not be omitted."""
  import numpy as np
  from mmv import gen
  G = r.choice([5, 6, 6])
  case = sl.make_case(r, g, G, cls='continuous', allow=('size',), elig_mode=r.choice(['none', 'ctx', 'ctx']), elig_extra='none',
                      n_dates=r.randrange(20, 70))
  panel = case['panel']
  D = len(panel['dates'])
  f = g.standard_normal(D)
  f2 = g.standard_normal(D)
  unit = 10.0 ** r.randrange(-2, 5)
  amp = [r.uniform(0.8, 1.2) for _ in range(4)]
  vals = np.zeros((G, D))
  for i in range(G):
    level = r.uniform(80, 160)
    noise = 0.05 * g.standard_normal(D)
    if i < 2:
      vals[i] = level + 5 * amp[i] * f + noise
    elif i < 4:
      vals[i] = level - 5 * amp[i] * f + noise
    else:
      vals[i] = level + 4 * f2 + 2.0 * g.standard_normal(D) + (1.5 * f if i == 4 else 0)
  order = list(range(G))
  r.shuffle(order)                         # position of the trap geos in the id order is random
  panel['values'] = (vals * unit)[order]
  panel['present'] = np.ones((G, D), dtype=bool)
  panel['dups'] = None
  panel['features'] = list(panel.get('features') or []) + ['prune-trap']
  case['frame'] = gen.panel_frame(panel, r, shuffle=True)
  ids = [str(i) for i in panel['ids']]
  pos = {k: order.index(k) for k in range(G)}
  P = [ids[pos[0]], ids[pos[1]]]
  S = P + [ids[pos[2]], ids[pos[3]]]
  kw = {k: v for k, v in case['params'].items() if k not in ('treatment_geos_range', 'control_geos_range', 'geo_ratio_tolerance',
                                                             'volume_ratio_tolerance', 'budget_range', 'n_geos_max',
                                                             'treatment_share_range', 'min_corr')}
  case['params'] = kw
  case['preset_geo_index'] = False
  case['prior_long_window'] = False
  truth = sl.Truth(case)
  if truth.iroas <= 0:
    return None
  singles = max(truth.opt_impact([gid]) for gid in truth.ids)
  iS, iP = truth.opt_impact(S), truth.opt_impact(P)
  floor = max(singles, iS)
  if not iP > 1.1 * floor:
    return None
  bhi = (floor + r.choice([0.3, 0.5, 0.8]) * (iP - floor)) / truth.iroas
  sP, sS = truth.share_of(P), truth.share_of(S)
  lo = sP + r.choice([0.3, 0.5, 0.8]) * (sS - sP)
  hi = min(0.97, sS * 1.05)
  if not (sP < lo < sS < hi and max(truth.share.values()) < hi):
    return None
  kw['budget_range'] = (0.0, bhi)
  kw['treatment_share_range'] = (lo, hi)
  kw['n_designs'] = r.choice([1, 3, 50, 100000, 100000])
  return case


def run_case(spec):
  r, g = util.rngs(PROP, spec['seed'], spec['idx'])
  tier = spec['tier']
  maxg = 6 if tier == 'quick' else 8
  G = r.choice([1, 2, 3, 3, 4, 4, 5, 5, 5, 6, 6] + ([6, 7, 7, 8] if tier == 'thorough' else []))
  G = min(G, maxg)
  focus = [None, 'budget', 'budget', 'share', 'size', 'ratio', 'volume', 'share'][spec['idx'] % 8]
  cls = 'duplicates' if spec['idx'] % 11 == 0 else ('integer' if spec['idx'] % 13 == 0 else None)
  if cls is None and spec['idx'] % 5 == 2:
    cls = 'marginal'           # correlations of most designs sit around min_corr (rounding of corr to 2 decimals bites)
  if cls is None and spec['idx'] % 17 == 3:
    cls = 'near_twins'         # a pair correlated above rho_max
  case = sl.make_case(r, g, G, focus=focus, cls=cls)
  counters = collections.Counter()
  if spec['idx'] % 16 == 7:
    trap = prune_trap_case(r, g)
    if trap is not None:
      case, G, focus, cls = trap, len(trap['panel']['ids']), 'trap', 'trap'
      counters['prune_trap_cases'] += 1
  sp.NEAR_RTOL[0] = 1e-9
  if spec['idx'] % 16 == 11 and G >= 3 and cls is None:
    sc = scaled_copy_case(r, g, G)
    if sc is not None:
      case, focus, cls = sc, 'scaled_copy', 'scaled_copy'
      counters['scaled_copy_cases'] += 1
      sp.NEAR_RTOL[0] = 1e-11          # well-conditioned panel: float noise in the last score entry is ~1e-13
  if spec['idx'] % 16 == 13 and G >= 4 and cls is None:
    mb = misaligned_budget_case(r, g, G)
    if mb is not None:
      case, focus, cls = mb, 'misaligned_budget', 'misaligned_budget'
      counters['misaligned_budget_cases'] += 1
  truth = sl.Truth(case)
  violations = []
  if cls == 'marginal':
    case['params']['n_designs'] = r.choice([5, 10, 20, 50])
    case['params'].pop('min_corr', None)
  if spec['idx'] % 8 in (2, 6) and G >= 3:
    # two-phase "rounding window" case: pick a feasible design whose correlation c rounds UP at two decimals and put
    # min_corr between c and round(c, 2): the design fails the correlation test although its reported (rounded)
    # correlation is >= min_corr; choose n_designs so that this design is the last one retained
    kw0 = dict(case['params'], n_designs=100000)
    kw0.pop('min_corr', None)
    probe = sl.run_search(dict(case, params=kw0), 'exhaustive')
    if probe['outcome'].ok and probe['designs']:
      cands = [d for d in probe['designs'] if d.get('corr') is not None and 0.8 <= d['corr'] < 0.985
               and round(d['corr'], 2) - d['corr'] > 5e-4]
      if cands:
        dstar = r.choice(cands)
        mc = (dstar['corr'] + round(dstar['corr'], 2)) / 2.0
        kw1 = dict(case['params'], min_corr=mc)
        t1 = sl.Truth(dict(case, params=kw1))
        bf = util.call(sl.brute_force, t1, probe['admitted'], sl.shadow_params(dict(case, params=kw1)))
        if bf.ok:
          key = (tuple(dstar['t']), tuple(dstar['c']))
          mine = [f for f in bf.value['feasible'] if (tuple(f['t']), tuple(f['c'])) == key]
          if mine and not sl.has_nan(mine[0]['score']):
            better = sum(1 for f in bf.value['feasible'] if not sl.has_nan(f['score']) and tuple(f['score']) > tuple(mine[0]['score']))
            kw1['n_designs'] = better + 1
            case = dict(case, params=kw1)
            truth = sl.Truth(case)
            desc = sl.describe(case, with_frame=False)
            counters['rounding_window_cases'] += 1
  shared = spec['idx'] % 4 == 1
  prior = spec['idx'] % 6 == 3
  edits = spec['idx'] % 8 == 4       # results of an earlier search (objects of its own) edited in place by the caller
  rec = sl.run_search(case, 'exhaustive', interleave=(r if shared else None), prior_calls=(['exhaustive', 'greedy'] if prior else None),
                      scribble_prior=(['exhaustive'] if edits else None))
  counters['prior_call_cases'] += bool(prior)
  counters['searches_after_caller_edits'] += bool(rec.get('scribbled'))
  counters['shared_data_searches'] += bool(rec.get('interleaved'))
  desc = sl.describe(case, with_frame=False)
  if not rec['outcome'].ok or rec['designs'] is None or rec['admitted'] is None:
    viol = []
    cnt = {'search_raised': 1}
    if rec.get('stage') == 'search' and rec['admitted'] is not None and rec['outcome'].exc_type == 'ValueError':
      # a ValueError "rejects the input"; that is only coherent with C03 when the oracle cannot score the design
      # space either (e.g. perfectly correlated twin series) or nothing must be returned
      bf = util.call(sl.brute_force, truth, rec['admitted'], sl.shadow_params(case))
      if bf.ok and not bf.value.get('unscorable') and not degenerate_pair_exists(truth, rec['admitted']):
        must = [f for f in bf.value['feasible'] if not f['omittable'] and not f['ambiguous'] and not sl.has_nan(f['score'])]
        cnt['raised_judged'] = 1
        if must:
          viol.append(sp.V('raises-on-feasible-input', 'exh:valueerror-although-feasible-designs-exist',
                           'exhaustive_search raised %s although %d feasible, scorable designs exist (e.g. T=%s C=%s)' % (
                               rec['outcome'].describe(), len(must), must[0]['t'], must[0]['c'])))
    return {'nontrivial': False, 'fp': util.fp(desc), 'classes': ['raised'], 'counters': cnt,
            'outcome': sp.search_failed(rec, 'exhaustive'), 'violations': viol, 'sample': None,
            'case': sl.describe(case) if viol else None}
  par = sl.shadow_params(case)
  v, info = sp.c03_clauses(case, truth, rec, par)
  violations += v
  counters['compared'] += 1
  counters['brute_designs'] += info.get('feasible', 0)
  counters['brute_assignments'] += info.get('assignments', 0)
  counters['designs_returned'] += len(rec['designs'])
  counters['heap_pushes'] += info.get('pushes', 0)
  counters['ambiguous_designs'] += info.get('ambiguous', 0)
  if info.get('pruned'):
    counters['cases_with_pruning'] += 1
  if info.get('skipped'):
    counters['skipped_' + info['skipped']] += 1
  return {'nontrivial': bool(info.get('nontrivial')) and not info.get('skipped'), 'fp': util.fp(desc),
          'classes': ['G=%d' % G, 'focus:%s' % focus], 'counters': dict(counters),
          'outcome': 'returned=%d' % min(3, len(rec['designs'])), 'violations': violations[:10],
          'sample': {'case': desc, 'returned': [[d['t'], d['c'], list(d['score'])] for d in rec['designs'][:3]],
                     'feasible_designs': info.get('feasible'), 'omittable': info.get('omittable')},
          'case': sl.describe(case) if violations else None}
