"""C08 — design diagnostics never serve stale values after their inputs change.

Monitors: (i) P-DIAG, an icontract class invariant installed in place on the real
TBRMMDiagnostics: after every public call / property access / setter, each non-None cache
slot must equal what a pristine (shadow-class) object built from the current series
computes; (ii) an explicit history runner comparing every *returned* value with the fresh
object's. Workload: random histories over {set x, set y, clear x, bad-length x, reads},
series pools in which successive states differ in every derived quantity; in-situ runs of
the real searches (which re-use one diagnostics object across control groups).
"""
import collections

import numpy as np

from mmv import bootstrap
from mmv import probes
from mmv import searchlab as sl
from mmv import util

PROP = 'C08'
LEVEL = 'exploration'
RULE = ('Random histories of 1-40 operations on one real TBRMMDiagnostics object over {set control series, '
        'set treatment series (also through one re-used ndarray work buffer that is later edited in place), clear control series, set a wrong-length control series (must raise and '
        'change nothing), read corr / required_impact / pretestfit / bbtest / dwtest / aatest / corr_test / '
        'tests_ok / tbrfit / estimate_required_impact}. The series pool holds controls that pass all tests, '
        'fail only the correlation test, only Durbin-Watson, only Brownian-bridge, only A/A, so successive '
        'states differ in each derived quantity. Every returned value is compared (exactly, NaN/array-aware) '
        'with a fresh pristine object holding the current series, and the icontract invariant checks every '
        'cache slot after every step. Non-trivial history: contains write -> read -> write -> read with '
        'different expected values at the two reads of the same quantity; distinct by operation sequence.')
ASSUMPTIONS = ['fresh-object reference = the same source files loaded a second time (detects inconsistency with '
               'a fresh object, which is what the property states)',
               'icontract 2.7.3 checks invariants after __init__, around public methods and property accessors']
EXHAUSTIVE = {'quick': False, 'thorough': False}
MINIMA = {'quick': {'close_pairs': 100, 'dtype_pairs': 100, 'buffer_mutations': 200, 'diag_invariant': 5000, 'reads_compared': 3000, 'set:bigrams': 60, 'distinct_nontrivial': 150,
                    'insitu_searches': 10},
          'thorough': {'close_pairs': 1500, 'dtype_pairs': 1500, 'buffer_mutations': 2700, 'diag_invariant': 100000, 'reads_compared': 45000, 'set:bigrams': 100, 'distinct_nontrivial': 2000,
                       'insitu_searches': 80}}
N_HIST = {'quick': 800, 'thorough': 8000}
N_INSITU = {'quick': 24, 'thorough': 160}
CASE_TIMEOUT = {'quick': 240, 'thorough': 900}

READS = ['corr', 'required_impact', 'pretestfit', 'bbtest', 'dwtest', 'aatest', 'corr_test', 'tests_ok',
         'tbrfit', 'estimate']


SUITE_FILES = ['test_tbrmmdiagnostics.py', 'test_tbrmmscore.py', 'test_tbrmmdesign.py', 'test_tbrmatchedmarkets2.py',
               'test_tbrmatchedmarkets3.py', 'test_heapdict.py']


def n_cases(tier):
  return N_HIST[tier] + N_INSITU[tier] + (len(SUITE_FILES) if tier == 'thorough' else 0)


def gen_case(tier, seed, idx):
  if idx < N_HIST[tier]:
    kind = 'history'
  elif idx < N_HIST[tier] + N_INSITU[tier]:
    kind = 'insitu'
  else:
    kind = 'suite'
  return {'tier': tier, 'seed': seed, 'idx': idx, 'kind': kind}


def run_suite(spec):
  """The repository's own tests with P-DIAG and P-HEAP on (thorough): a contract that fires there is examined."""
  import json
  import os
  import subprocess
  import tempfile
  fname = SUITE_FILES[spec['idx'] - N_HIST[spec['tier']] - N_INSITU[spec['tier']]]
  repo = bootstrap.REPO_DIR
  with tempfile.TemporaryDirectory() as td:
    out = os.path.join(td, 'plugin.json')
    env = dict(os.environ, MMV_PLUGIN_OUT=out, MMV_REPO_DIR=repo,
               PYTHONPATH=os.pathsep.join([repo, bootstrap.VERIF_DIR, bootstrap.DEPS_DIR]))
    subprocess.run(['/venv/bin/python', '-W', 'ignore', '-m', 'pytest', '-q', '-p', 'no:cacheprovider', '-p',
                    'mmv.pytest_diag_plugin', '--timeout=900', os.path.join('matched_markets', 'tests', fname)],
                   cwd=repo, env=env, stdout=subprocess.DEVNULL, stderr=subprocess.DEVNULL, timeout=850)
    try:
      res = json.load(open(out))
    except (OSError, ValueError):
      res = None
  violations = []
  counters = {}
  if res is None:
    return {'nontrivial': False, 'fp': 'suite-' + fname, 'classes': ['suite'], 'counters': {'suite_runs_unreadable': 1},
            'violations': [], 'sample': None}
  counters['suite_invariant_evals'] = int(res['counts'].get('diag_invariant', 0))
  counters['suite_heap_reads'] = int(res['counts'].get('heap_read', 0))
  counters['suite_files'] = 1
  for t in res['stale_tests']:
    violations.append({'clause': 'invariant-in-suite', 'mech': 'stale-slot:' + '+'.join(sorted(t.get('slots') or ['?'])),
                       'detail': 'repository test %s trips the cache invariant (slots %s)' % (t['test'], t.get('slots'))})
  for t in res['heap_alarm_tests']:
    violations.append({'clause': 'heap-in-suite', 'mech': 'heap-' + str(t['alarm'].get('clause')),
                       'detail': 'repository test %s: %s' % (t['test'], t['alarm'].get('detail'))})
  return {'nontrivial': counters['suite_invariant_evals'] > 0, 'fp': 'suite-' + fname, 'classes': ['suite'],
          'counters': counters, 'violations': violations[:10],
          'sample': {'kind': 'repository tests under monitors', 'file': fname, 'invariant_evaluations': counters['suite_invariant_evals']}}


def prepare(tier):
  probes.install_diag()
  probes.install_heap()


def make_pool(r, g, n, n_test):
  """Treatment series and a pool of control series with distinct diagnostic outcomes."""
  t = np.arange(n)
  common = np.cumsum(g.normal(0, 1, n)) + 3 * np.sin(2 * np.pi * t / 7.0)
  ys = []
  for _ in range(2):
    ys.append(100 + 5 * common * r.choice([1.0, 0.7]) + g.normal(0, 0.3, n))
  base = ys[0]
  pool = {}
  pool['good'] = 50 + 0.8 * (base - 100) + g.normal(0, 0.3, n)
  pool['good2'] = 70 + 1.1 * (ys[1] - 100) + g.normal(0, 0.25, n)
  pool['uncorr'] = 40 + g.normal(0, 2.0, n)
  e = g.normal(0, 1.0, n)
  for k in range(1, n):
    e[k] = 0.9 * e[k - 1] + 0.43 * e[k]
  pool['dw'] = 50 + 0.8 * (base - 100) + 1.5 * e
  brk = np.zeros(n)
  brk[n // 2:] = 3.0
  pool['bb'] = 50 + 0.8 * (base - 100) + g.normal(0, 0.3, n) + brk
  late = np.zeros(n)
  late[-n_test:] = 4.0
  pool['aa'] = 50 + 0.8 * (base - 100) + g.normal(0, 0.3, n) + late
  pool['neg'] = 60 - 0.8 * (base - 100) + g.normal(0, 0.3, n)
  pool['const'] = np.full(n, 5.0)
  pool['exact'] = 2.0 * base          # exactly twice the first treatment series: zero residuals, zero residual variance
  return ys, pool


def do_read(obj, name, args):
  if name == 'tbrfit':
    return obj.tbrfit(*args)
  if name == 'estimate':
    return obj.estimate_required_impact(args[0])
  return getattr(obj, name)


def run_history(spec, r, g):
  pmod = bootstrap.mm('tbrmmdesignparameters')
  dmod = bootstrap.mm('tbrmmdiagnostics')
  n = r.choice([8, 12, 20, 30, 45, 90])
  n_test = r.randrange(1, max(2, min(14, n - 3)))
  par = pmod.TBRMMDesignParameters(n_test=n_test, iroas=r.choice([1.0, 2.0]),
                                   min_corr=r.choice([0.8, 0.9]), sig_level=r.choice([0.9, 0.8]),
                                   power_level=r.choice([0.8, 0.6]), flevel=r.choice([0.9, 0.95]))
  ys, pool = make_pool(r, g, n, n_test)
  ys_short = [y[:max(3, n - 4)] for y in ys]
  names = sorted(pool)
  xbuf = np.array(pool['good'], dtype=float)
  ybuf = np.array(ys[0], dtype=float)
  counters = collections.Counter()
  violations = []
  ops_log = []
  bigrams = set()
  slots_seen_before_write = set()
  cur_y, cur_x = ys[0], None
  probes.DIAG_STATE['last_stale'] = None
  try:
    obj = dmod.TBRMMDiagnostics(cur_y, par)
  except probes.StaleCache:
    violations.append({'clause': 'invariant', 'mech': 'stale-after-init', 'detail': 'invariant broken after __init__'})
    return {'nontrivial': False, 'fp': 'x', 'violations': violations, 'counters': {}, 'classes': ['history']}
  L = r.choice([1, 2, 3, 5, 8, 12, 20, 30, 40])
  prev = 'init'
  read_log = collections.defaultdict(list)   # read name -> list of (write epoch, fingerprint of expected)
  epoch = 0
  for step in range(L):
    u = r.random()
    if u < 0.03:
      op = ('set_x_close_pair',)
    elif u < 0.06:
      op = ('set_x_dtype_pair',)
    elif u < 0.09:
      op = ('set_x_buffer', r.choice(names))
    elif u < 0.12:
      op = ('set_y_buffer', r.randrange(0, 2))
    elif u < 0.15:
      op = ('mutate_buffers',)
    elif u < 0.30:
      op = ('set_x', r.choice(names))
    elif u < 0.37:
      op = ('set_y', r.randrange(0, 4))
    elif u < 0.42:
      op = ('clear_x',)
    elif u < 0.46:
      op = ('bad_x',)
    else:
      op = ('read', r.choice(READS))
    opname = op[0] if op[0] != 'read' else 'read:' + op[1]
    bigrams.add(prev + '>' + opname)
    prev = opname
    ops_log.append(list(op))
    if op[0] != 'read':
      for slot, _ in probes.DIAG_SLOTS:
        if getattr(obj, slot, None) is not None and not slot.endswith('_mean'):
          slots_seen_before_write.add(slot)
    try:
      if op[0] == 'set_x':
        x = pool[op[1]]
        if len(x) != len(cur_y):
          x = x[:len(cur_y)]
        obj.x = x
        cur_x = np.array(x)
        epoch += 1
      elif op[0] == 'set_x_close_pair':
        # two different control series that agree to ~1e-11 relative (huge level, small fluctuations), one after the
        # other: the second one is a different series and must replace the first
        m_ = len(cur_y)
        xa = 1e12 + pool['good'][:m_] if m_ <= n else 1e12 + np.arange(m_, dtype=float)
        xb = 1e12 + pool['uncorr'][:m_] if m_ <= n else 1e12 - np.arange(m_, dtype=float)
        obj.x = xa
        _ = obj.corr, obj.pretestfit
        obj.x = xb
        cur_x = np.array(xb)
        epoch += 1
        counters['close_pairs'] += 1
      elif op[0] == 'set_x_dtype_pair':
        # two control series with identical raw bytes but different dtype (hence different values)
        m_ = len(cur_y)
        raw = (np.arange(m_) * 37 + 130) % 256
        xa = raw.astype(np.uint8)
        xb = xa.view(np.int8)
        obj.x = xa
        _ = obj.pretestfit, obj.dwtest
        obj.x = xb
        cur_x = np.array(xb)
        epoch += 1
        counters['dtype_pairs'] += 1
      elif op[0] == 'set_x_buffer':
        # the caller re-uses one work buffer (same ndarray object) for successive control series
        if len(cur_y) == n:
          xbuf[:] = pool[op[1]]
          obj.x = xbuf
          cur_x = xbuf.copy()
          epoch += 1
      elif op[0] == 'set_y_buffer':
        ybuf[:] = ys[op[1]]
        obj.y = ybuf
        cur_y, cur_x = ybuf.copy(), None
        epoch += 1
      elif op[0] == 'mutate_buffers':
        # in-place edits of arrays the caller passed earlier must not reach the object (it holds the series
        # it was given at assignment time)
        xbuf *= 1.0 + 0.01 * r.random()
        xbuf += r.choice([0.0, 3.0])
        ybuf[::2] += 0.5
        counters['buffer_mutations'] += 1
      elif op[0] == 'set_y':
        y = (ys + ys_short)[op[1]]
        obj.y = y
        cur_y, cur_x = np.array(y), None
        epoch += 1
      elif op[0] == 'clear_x':
        obj.x = None
        cur_x = None
        epoch += 1
      elif op[0] == 'bad_x':
        out = util.call(setattr, obj, 'x', np.arange(len(cur_y) + 2, dtype=float))
        counters['bad_x'] += 1
        if out.ok:
          violations.append({'clause': 'bad-length', 'mech': 'diag-accepts-bad-length', 'detail': 'x of wrong length accepted'})
        elif isinstance(out.exc, probes.StaleCache):
          raise out.exc
        elif out.exc_type != 'ValueError':
          violations.append({'clause': 'bad-length', 'mech': 'diag-bad-length:' + out.exc_type, 'detail': out.describe()})
      else:
        name = op[1]
        args = ()
        if name == 'tbrfit':
          args = (float(np.mean(cur_y)) + 1.0, float(np.mean(cur_y)) * 1.01)
        elif name == 'estimate':
          args = (r.choice([0.0, 0.5, 0.9, 0.995, -0.7]),)
        fresh = probes.fresh_diag(cur_y, cur_x, par)
        want = util.call(do_read, fresh, name, args)
        got = util.call(do_read, obj, name, args)
        if isinstance(got.exc, probes.StaleCache):
          raise got.exc
        counters['reads_compared'] += 1
        if want.ok != got.ok or (not want.ok and want.exc_type != got.exc_type):
          violations.append({'clause': 'read', 'mech': 'stale-read:' + name,
                             'detail': 'step %d read %s: live object %s, fresh object %s; history %r' % (
                                 step, name, got.describe(), want.describe(), ops_log)})
        elif want.ok and not probes.same(got.value, want.value):
          violations.append({'clause': 'read', 'mech': 'stale-read:' + name,
                             'detail': 'step %d read %s returned %r, a fresh object holding the same series returns %r; history %r' % (
                                 step, name, _short(got.value), _short(want.value), ops_log)})
        if want.ok:
          read_log[name].append((epoch, util.fp(_short(want.value))))
    except probes.StaleCache:
      bad = probes.DIAG_STATE['last_stale'] or ['?']
      violations.append({'clause': 'invariant', 'mech': 'stale-slot:' + '+'.join(sorted(bad)),
                         'detail': 'after step %d (%s) cache slot(s) %s differ from a fresh object; history %r' % (
                             step, opname, bad, ops_log)})
      break
    if len(violations) > 5:
      break
  nontrivial = False
  for name, entries in read_log.items():
    for (e1, f1), (e2, f2) in zip(entries, entries[1:]):
      if e2 > e1 and f1 != f2:
        nontrivial = True
  return {'nontrivial': nontrivial, 'fp': util.fp([n, n_test, ops_log]), 'classes': ['history'],
          'counters': dict(counters, histories=1, steps=len(ops_log)),
          'sets': {'bigrams': sorted(bigrams), 'slots_nonnull_before_write': sorted(slots_seen_before_write)},
          'violations': violations,
          'sample': {'kind': 'history', 'n': n, 'n_test': n_test, 'ops': ops_log[:14]}}


def _short(v):
  if isinstance(v, tuple):
    return [_short(e) for e in v]
  if isinstance(v, np.ndarray):
    return [float(x) for x in v[:4]] + ['len=%d' % len(v)]
  if isinstance(v, (np.floating, float)):
    return float(v)
  if isinstance(v, (np.bool_, bool)):
    return bool(v)
  return v


def run_insitu(spec, r, g):
  """Real searches with the invariant active on every diagnostics object they touch."""
  G = r.randrange(2, 5)
  case = sl.make_case(r, g, G, n_dates=r.randrange(10, 30), elig_extra='none')
  counters = collections.Counter()
  violations = []
  for which in ('exhaustive', 'greedy'):
    before = probes.COUNTS['diag_invariant']
    probes.DIAG_STATE['last_stale'] = None
    rec = sl.run_search(case, which)
    o = rec['outcome']
    counters['insitu_invariant_evals'] += probes.COUNTS['diag_invariant'] - before
    if o.ok:
      counters['insitu_searches'] += 1
    elif isinstance(o.exc, probes.StaleCache):
      bad = probes.DIAG_STATE['last_stale'] or ['?']
      violations.append({'clause': 'invariant-in-search', 'mech': 'stale-slot:' + '+'.join(sorted(bad)),
                         'detail': '%s_search: cache slot(s) %s stale at %s' % (which, bad, util.innermost_repo_frame(o.exc))})
  return {'nontrivial': counters['insitu_searches'] > 0, 'fp': util.fp(sl.describe(case, False)),
          'classes': ['insitu'], 'counters': dict(counters), 'violations': violations,
          'sample': None, 'case': sl.describe(case) if violations else None}


def run_case(spec):
  r, g = util.rngs(PROP, spec['seed'], spec['idx'])
  before = probes.COUNTS['diag_invariant']
  if spec['kind'] == 'suite':
    return run_suite(spec)
  rec = run_history(spec, r, g) if spec['kind'] == 'history' else run_insitu(spec, r, g)
  rec.setdefault('counters', {})['diag_invariant'] = probes.COUNTS['diag_invariant'] - before
  return rec
