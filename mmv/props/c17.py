"""C17 — design parameters are accepted exactly when in their documented domain.

Oracle: a three-valued (accept / reject / unspecified) table written from the class
docstring. Workload: one field at a time over a boundary grid (complete), then pairs of
fields; defaults and field-wise equality.
"""
import collections
import dataclasses
import itertools
import math

import numpy as np

from mmv import bootstrap
from mmv import util

PROP = 'C17'
LEVEL = 'exploration'
RULE = ('From the valid base object (n_test=14, iroas=1.0) one field at a time is set to every value of '
        'its boundary grid (each bound, nextafter neighbours, 0, negatives, +-inf, NaN, None, str, list vs '
        'tuple, wrong arity, reversed / equal pairs, non-integral sizes, bool / numpy scalars / integral '
        'floats as the "unspecified" class) - complete for all 16 fields; the second half of the cases '
        'varies two fields at once. The expected outcome comes from a table written from the class '
        'docstring; "unspecified" values are executed and recorded but never judged. A case is non-trivial '
        'when the expected outcome is accept or reject; distinct by (fields, values).')
ASSUMPTIONS = ['documented domain = TBRMMDesignParameters class docstring; where it is silent (bool, numpy '
               'scalars, integral floats for integer fields, +inf for "float > 0", lists instead of tuples, '
               'equal float pairs) the value is recorded as unspecified and not judged',
               'budget_range upper end must be finite is NOT assumed (inf is unspecified)']
EXHAUSTIVE = {'quick': True, 'thorough': True}
MINIMA = {'quick': {'valid_pairs': 600, 'judged': 600, 'accepts': 100, 'rejects': 300, 'set:field_outcomes': 32,
                    'distinct_nontrivial': 600},
          'thorough': {'valid_pairs': 600, 'judged': 20000, 'accepts': 2000, 'rejects': 8000, 'set:field_outcomes': 32,
                       'distinct_nontrivial': 20000}}
INF = float('inf')
NAN = float('nan')

# field -> (kind, lo, lo_closed, hi, hi_closed, optional)
SCALARS = {
    'n_test': ('int', 1, True, INF, False, False),
    'iroas': ('float', 0.0, True, INF, False, False),
    'volume_ratio_tolerance': ('float', 0.0, False, INF, False, True),
    'geo_ratio_tolerance': ('float', 0.0, False, INF, False, True),
    'n_geos_max': ('int', 2, True, INF, False, True),
    'n_pretest_max': ('int', 3, True, INF, False, False),
    'n_designs': ('int', 1, True, INF, False, False),
    'rho_max': ('float', 0.9, True, 1.0, False, False),
    'sig_level': ('float', 0.0, False, 1.0, False, False),
    'power_level': ('float', 0.0, False, 1.0, False, False),
    'min_corr': ('float', 0.8, True, 1.0, False, False),
    'flevel': ('float', 0.9, True, 1.0, False, False),
}
# field -> (kind, lo, lo_closed, hi, hi_closed, equal_ok)   (all optional)
RANGES = {
    'treatment_share_range': ('float', 0.0, False, 1.0, False, None),
    'budget_range': ('float', 0.0, True, INF, False, None),
    'treatment_geos_range': ('int', 1, True, INF, False, True),
    'control_geos_range': ('int', 1, True, INF, False, True),
}
DEFAULTS = {'volume_ratio_tolerance': None, 'geo_ratio_tolerance': None, 'treatment_share_range': None,
            'budget_range': None, 'treatment_geos_range': None, 'control_geos_range': None,
            'n_geos_max': None, 'n_pretest_max': 90, 'n_designs': 1, 'sig_level': 0.9,
            'power_level': 0.8, 'min_corr': 0.8, 'rho_max': 0.995, 'flevel': 0.9}
FIELDS = list(SCALARS) + list(RANGES)


def is_plain_number(v):
  return (type(v) is int) or (type(v) is float)


def in_interval(v, lo, lo_closed, hi, hi_closed):
  if v != v:
    return False
  if v < lo or (v == lo and not lo_closed):
    return False
  if v > hi or (v == hi and not hi_closed):
    return False
  return True


def expect_scalar(field, v):
  kind, lo, loc, hi, hic, optional = SCALARS[field]
  if v is None:
    return 'accept' if optional else 'reject'
  if type(v) is np.float64:
    v = float(v)          # numpy's double IS a float (subclass): same domain as the built-in type
  if isinstance(v, bool) or isinstance(v, np.generic):
    return 'unspecified'
  if not is_plain_number(v):
    return 'reject'
  if v != v:
    return 'reject'
  if type(v) is int and abs(v) > 10 ** 308 and kind == 'float':
    return 'unspecified' if (v > 0 and hi == INF) else 'reject'
  if type(v) is float and math.isinf(v):
    if v < 0:
      return 'reject'
    if kind == 'int':
      return 'reject'
    return 'unspecified' if hi == INF else 'reject'
  if kind == 'int':
    if type(v) is float:
      if v != int(v):
        return 'reject'
      return 'unspecified' if in_interval(v, lo, loc, hi, hic) else 'reject'
    return 'accept' if in_interval(v, lo, loc, hi, hic) else 'reject'
  return 'accept' if in_interval(v, lo, loc, hi, hic) else 'reject'


def expect_range(field, v):
  kind, lo, loc, hi, hic, equal_ok = RANGES[field]
  if v is None:
    return 'accept'
  if isinstance(v, list):
    return 'reject'          # documented as "a tuple of two ..."; a list would also be kept by reference
  if not isinstance(v, tuple) or len(v) != 2:
    return 'reject'
  a, b = v
  verdicts = []
  if kind != 'int':
    a, b = (float(e) if type(e) is np.float64 else e for e in (a, b))
  for e in (a, b):
    if isinstance(e, bool) or isinstance(e, np.generic):
      verdicts.append('unspecified')
      continue
    if not is_plain_number(e):
      return 'reject'
    if e != e:
      return 'reject'
    if type(e) is float and math.isinf(e):
      if e < 0 or kind == 'int' or hi != INF:
        return 'reject'
      verdicts.append('unspecified')
      continue
    if kind == 'int' and type(e) is float:
      if e != int(e):
        return 'reject'
      verdicts.append('unspecified')
    if not in_interval(e, lo, loc, hi, hic):
      return 'reject'
  try:
    if a > b:
      return 'reject'
    if a == b:
      if equal_ok is None:
        verdicts.append('unspecified')
      elif not equal_ok:
        return 'reject'
  except TypeError:
    return 'reject'
  return 'unspecified' if 'unspecified' in verdicts else 'accept'


def expect(field, v):
  return expect_scalar(field, v) if field in SCALARS else expect_range(field, v)


def na(x, d):
  return float(np.nextafter(x, d))


def scalar_grid(field):
  kind, lo, loc, hi, hic, optional = SCALARS[field]
  vals = [None, 'x', '1.0', [1], (1,), (0.1, None), 1j, NAN, INF, -INF, True, False, 0, -1, -0.5, 0.0, -0.0,
          1e-300, 5e-324, 1e300, 10 ** 30]
  if kind == 'int':
    vals += [lo, lo - 1, lo + 1, lo + 7, float(lo), float(lo + 1), lo + 0.5, na(lo, INF), na(lo, -INF),
             2.5, 14.0, 1e15, np.int64(lo + 1), np.float64(lo + 1), 2 ** 53 + 1, 10 ** 400]
  else:
    mid = (lo + (hi if hi != INF else lo + 2.0)) / 2.0
    vals += [lo, na(lo, INF), na(lo, -INF), mid, float(mid), np.float64(mid), np.float32(0.5), 1, 2, 0.5,
             0.8, 0.9, 0.95, 0.995, 0.999999]
    if hi != INF:
      vals += [hi, na(hi, -INF), na(hi, INF), hi + 0.1, int(hi)]
    else:
      vals += [1e308, 3, 1000]
  dflt = DEFAULTS.get(field)
  if dflt is not None:
    # wrong-typed values that compare EQUAL to the field's default
    import decimal, fractions  # pylint: disable=g-import-not-at-top,multiple-imports
    vals += [decimal.Decimal(str(dflt)), fractions.Fraction(str(dflt)), complex(dflt, 0.0), np.array([dflt]), np.array(dflt), [dflt], str(dflt)]
  return vals


def range_grid(field):
  kind, lo, loc, hi, hic, equal_ok = RANGES[field]
  if kind == 'int':
    ends = [0, 1, 2, 3, 9, -1, 1.0, 2.0, 1.5, NAN, INF, None, 'x', True, np.int64(2), 10 ** 30, na(1, INF)]
  elif field == 'treatment_share_range':
    ends = [0.0, na(0.0, 1), 0.1, 0.3, 0.5, na(1.0, 0), 1.0, -0.1, 1.1, NAN, INF, None, 'x', 0, 1, True,
            np.float64(0.4), -INF]
  else:
    ends = [0.0, 0, -0.0, na(0.0, 1), 1.0, 5, 1e6, 1e308, -1e-9, -1.0, NAN, INF, -INF, None, 'x', True,
            np.float64(2.0), 2 ** 53, 2 ** 53 + 1]    # adjacent integers that collapse to one float
  vals = [None, 0.1, (0.1,), (0.1, 0.2, 0.3), '0.1', 5, (), [], [1, 2], [0.1, 0.2], {1, 2}, 'ab', (None, None)]
  vals += [(a, b) for a in ends for b in ends]
  return vals


def base_kwargs():
  return {'n_test': 14, 'iroas': 1.0}


def single_field_cases():
  out = []
  for f in SCALARS:
    for v in scalar_grid(f):
      out.append(((f, v),))
  for f in RANGES:
    for v in range_grid(f):
      out.append(((f, v),))
  return out


_SINGLES = None


def singles():
  global _SINGLES
  if _SINGLES is None:
    _SINGLES = single_field_cases()
  return _SINGLES


N_CHUNKS = {'quick': 32, 'thorough': 256}
PAIRS_PER_CHUNK = {'quick': 150, 'thorough': 1500}


def n_cases(tier):
  return N_CHUNKS[tier]


def gen_case(tier, seed, idx):
  return {'tier': tier, 'seed': seed, 'idx': idx}


def vrepr(v):
  if isinstance(v, float):
    return repr(v)
  return '%s:%r' % (type(v).__name__, v)


def judge(P, assignment, counters, violations, fps, per_field):
  kw = base_kwargs()
  exp = 'accept'
  for f, v in assignment:
    kw[f] = v
    e = expect(f, v)
    if e == 'reject':
      exp = 'reject'
    elif e == 'unspecified' and exp != 'reject':
      exp = 'unspecified'
  out = util.call(lambda: P(**kw))
  counters['constructions'] += 1
  label = ', '.join('%s=%s' % (f, vrepr(v)) for f, v in assignment)
  if exp == 'unspecified':
    counters['unspecified'] += 1
    return
  counters['judged'] += 1
  fps.add(util.fp([[f, vrepr(v)] for f, v in assignment]))
  if exp == 'accept':
    counters['accepts'] += 1
    for f, _ in assignment:
      per_field[f].add('accept')
    if not out.ok:
      violations.append({'clause': 'accept', 'mech': 'param-rejects-valid:' + '+'.join(f for f, _ in assignment),
                         'detail': '%s is in the documented domain but raised %s' % (label, out.describe())})
    else:
      for f, v in assignment:
        got = getattr(out.value, f)
        if not (got is v or got == v):
          violations.append({'clause': 'stored', 'mech': 'param-stored-value', 'detail': '%s stored as %r' % (label, got)})
  else:
    counters['rejects'] += 1
    for f, _ in assignment:
      per_field[f].add('reject')
    if out.ok:
      violations.append({'clause': 'reject', 'mech': 'param-accepts-invalid:' + '+'.join(f for f, _ in assignment),
                         'detail': '%s is outside the documented domain but was accepted' % label})
    elif out.exc_type != 'ValueError':
      bad = [f for f, v in assignment if expect(f, v) == 'reject']
      kinds = sorted({('inf' if isinstance(v, float) and math.isinf(v) else type(v).__name__) for f, v in assignment if f in bad})
      violations.append({'clause': 'reject-type', 'mech': 'param-reject-type:%s:%s' % (out.exc_type, '+'.join(kinds)),
                         'detail': '%s rejected with %s' % (label, out.describe())})


def run_case(spec):
  tier, idx = spec['tier'], spec['idx']
  r, _ = util.rngs(PROP, spec['seed'], idx)
  P = bootstrap.mm('tbrmmdesignparameters').TBRMMDesignParameters
  counters = collections.Counter()
  violations = []
  fps = set()
  per_field = collections.defaultdict(set)
  chunks = N_CHUNKS[tier]
  S = singles()
  sample = None
  for j, a in enumerate(S):
    if j % chunks == idx:
      judge(P, a, counters, violations, fps, per_field)
      if sample is None and expect(*a[0]) != 'unspecified':
        sample = {'field': a[0][0], 'value': vrepr(a[0][1]), 'expected': expect(*a[0])}
  # pairs of fields
  for _ in range(PAIRS_PER_CHUNK[tier]):
    f1, f2 = r.sample(FIELDS, 2)
    g1 = scalar_grid(f1) if f1 in SCALARS else range_grid(f1)
    g2 = scalar_grid(f2) if f2 in SCALARS else range_grid(f2)
    judge(P, ((f1, r.choice(g1)), (f2, r.choice(g2))), counters, violations, fps, per_field)
  # every pair of fields with documented-valid values for both: fields are validated independently
  valid_vals = {'n_test': [1, 14, 400], 'iroas': [0.0, 2.5], 'volume_ratio_tolerance': [0.01, 50.0, None],
                'geo_ratio_tolerance': [0.01, 50.0, None], 'treatment_share_range': [(0.01, 0.99), (0.4, 0.5), None],
                'budget_range': [(0.0, 1.0), (5.0, 1e9), None], 'treatment_geos_range': [(1, 1), (1, 100), (50, 60), None],
                'control_geos_range': [(1, 1), (2, 100), (50, 60), None], 'n_geos_max': [2, 20, 1000, None],
                'n_pretest_max': [3, 90, 5000], 'n_designs': [1, 100000], 'rho_max': [0.9, 0.9999], 'sig_level': [0.001, 0.999],
                'power_level': [0.001, 0.999], 'min_corr': [0.8, 0.9999], 'flevel': [0.9, 0.9999]}
  pairs_all = list(itertools.combinations(FIELDS, 2))
  for j, (f1, f2) in enumerate(pairs_all):
    if j % chunks != idx:
      continue
    for v1 in valid_vals[f1]:
      for v2 in valid_vals[f2]:
        judge(P, ((f1, v1), (f2, v2)), counters, violations, fps, per_field)
        counters['valid_pairs'] += 1
  # defaults and equality (once per chunk, cheap)
  base = util.call(lambda: P(**base_kwargs()))
  if not base.ok:
    violations.append({'clause': 'base', 'mech': 'param-base-rejected', 'detail': base.describe()})
  else:
    counters['defaults_checked'] += 1
    # a caller's own subclass (no docstring of its own) validates exactly like the class itself
    Sub = type('CallerSubclass', (P,), {})
    for kw_bad in ({'n_test': 0, 'iroas': 1.0}, {'n_test': 14, 'iroas': -1.0}, {'n_test': 14, 'iroas': 1.0, 'sig_level': 1.0},
                   {'n_test': 14, 'iroas': 1.0, 'budget_range': (2.0, 1.0)}):
      sb = util.call(lambda: Sub(**kw_bad))
      counters['subclass_constructions'] += 1
      if sb.ok:
        violations.append({'clause': 'reject', 'mech': 'param-subclass-accepts-invalid', 'detail': 'subclass accepted %r' % (kw_bad,)})
      elif sb.exc_type != 'ValueError':
        violations.append({'clause': 'reject-type', 'mech': 'param-reject-type:subclass:' + sb.exc_type,
                           'detail': 'a subclass without a docstring of its own, %r -> %s' % (kw_bad, sb.describe())})
    sg = util.call(lambda: Sub(**base_kwargs()))
    if not sg.ok:
      violations.append({'clause': 'accept', 'mech': 'param-subclass-rejects-valid', 'detail': sg.describe()})
    for f, want in DEFAULTS.items():
      got = getattr(base.value, f)
      if not (got is want or got == want):
        violations.append({'clause': 'default', 'mech': 'param-default:' + f, 'detail': 'default %s=%r, documented %r' % (f, got, want)})
    names = [f.name for f in dataclasses.fields(base.value)]
    if sorted(names) != sorted(FIELDS):
      violations.append({'clause': 'fields', 'mech': 'param-fields', 'detail': 'fields %r' % names})
    # equality is field-wise
    valid = {'n_test': 7, 'iroas': 2.0, 'volume_ratio_tolerance': 0.5, 'geo_ratio_tolerance': 1.0,
             'treatment_share_range': (0.1, 0.6), 'budget_range': (0.0, 10.0), 'treatment_geos_range': (1, 3),
             'control_geos_range': (2, 5), 'n_geos_max': 5, 'n_pretest_max': 30, 'n_designs': 4,
             'rho_max': 0.95, 'sig_level': 0.8, 'power_level': 0.7, 'min_corr': 0.9, 'flevel': 0.95}
    av = util.call(lambda: P(**valid))
    if not av.ok:
      violations.append({'clause': 'accept', 'mech': 'param-rejects-valid:combination',
                         'detail': 'every field in its documented domain (%r) but construction raised %s' % (valid, av.describe())})
      both = 0
      return {'nontrivial': False, 'nontrivial_fps': sorted(fps), 'fp': 'chunk-%d' % idx, 'classes': ['grid+pairs'],
              'counters': dict(counters), 'sets': {'field_outcomes': ['%s:%s' % (f, o) for f in per_field for o in per_field[f]]},
              'violations': violations[:40], 'sample': sample}
    a = av.value
    b = P(**dict(valid))
    counters['equality_checked'] += 1
    if not (a == b):
      violations.append({'clause': 'equality', 'mech': 'param-eq', 'detail': 'equal field values compare unequal'})
    alt = {'n_test': 8, 'iroas': 3.0, 'volume_ratio_tolerance': 0.6, 'geo_ratio_tolerance': None,
           'treatment_share_range': (0.1, 0.7), 'budget_range': None, 'treatment_geos_range': (1, 4),
           'control_geos_range': (1, 5), 'n_geos_max': 6, 'n_pretest_max': 31, 'n_designs': 5,
           'rho_max': 0.96, 'sig_level': 0.81, 'power_level': 0.71, 'min_corr': 0.91, 'flevel': 0.96}
    # equality must follow the current field values (the dataclass is mutable): compare, assign, compare again
    m = P(**dict(valid))
    _ = (m == b)
    f_mut = r.choice(FIELDS)
    setattr(m, f_mut, alt[f_mut])
    counters['equality_checked'] += 2
    if m == b:
      violations.append({'clause': 'equality', 'mech': 'param-eq-after-assignment',
                         'detail': 'after assigning %s=%r the object still compares equal to one holding the old value' % (f_mut, alt[f_mut])})
    if not (m == P(**dict(valid, **{f_mut: alt[f_mut]}))):
      violations.append({'clause': 'equality', 'mech': 'param-eq-after-assignment',
                         'detail': 'after assigning %s=%r the object is unequal to a fresh one with the same field values' % (f_mut, alt[f_mut])})
    for f in FIELDS:
      c = P(**dict(valid, **{f: alt[f]}))
      counters['equality_checked'] += 1
      if a == c:
        violations.append({'clause': 'equality', 'mech': 'param-eq:' + f,
                           'detail': 'objects differing in %s compare equal' % f})
    # values far apart that digest-based comparisons cannot tell apart (CPython hashes numbers modulo 2**61 - 1, so
    # v, v + (2**61 - 1) and v * 2.0**61 hash alike)
    P61 = 2 ** 61 - 1
    far = {'n_test': 7 + P61, 'iroas': 2.0 * 2.0 ** 61, 'volume_ratio_tolerance': 0.5 * 2.0 ** 61, 'geo_ratio_tolerance': 2.0 ** 61,
           'treatment_share_range': (0.1 * 2.0 ** -61, 0.6), 'budget_range': (0.0, 10.0 * 2.0 ** 61),
           'treatment_geos_range': (1, 3 + P61), 'control_geos_range': (2, 5 + P61), 'n_geos_max': 5 + P61,
           'n_pretest_max': 30 + P61, 'n_designs': 4 + P61, 'rho_max': 0.95 * 2.0 ** -61, 'sig_level': 0.8 * 2.0 ** -61,
           'power_level': 0.7 * 2.0 ** -61, 'flevel': 0.95 * 2.0 ** -61}
    for f, v in far.items():
      cc = util.call(lambda: P(**dict(valid, **{f: v})))
      if not cc.ok:
        continue
      counters['equality_checked'] += 1
      counters['equality_far_values'] += 1
      if a == cc.value or cc.value == a:
        violations.append({'clause': 'equality', 'mech': 'param-eq:' + f,
                           'detail': 'objects differing in %s (%r vs %r) compare equal' % (f, valid[f], v)})
  both = sum(1 for f in FIELDS if per_field[f] >= {'accept', 'reject'})
  return {'nontrivial': False, 'nontrivial_fps': sorted(fps), 'fp': 'chunk-%d' % idx,
          'classes': ['grid+pairs'], 'counters': dict(counters),
          'sets': {'field_outcomes': ['%s:%s' % (f, o) for f in per_field for o in per_field[f]]},
          'violations': violations[:40], 'sample': sample}


def summarize(records):
  seen = collections.defaultdict(set)
  for r in records:
    for s in (r.get('sets') or {}).get('field_outcomes', []):
      f, o = s.split(':')
      seen[f].add(o)
  both = sorted(f for f in FIELDS if seen[f] >= {'accept', 'reject'})
  return {'fields_with_both_outcomes': both, 'single_field_grid_size': len(singles())}
