"""C20 — expansion of excluded days is exact.

Oracle: an independent calendar (datetime.date arithmetic). Workload: lists of single days
and closed ranges in the documented format with duplicates, overlaps, nesting, abutting
ranges, month / year / leap-day crossings, permutations of the same list; malformed
entries and reversed ranges must raise ValueError from either step.
"""
import collections
import datetime

from mmv import bootstrap
from mmv import util

PROP = 'C20'
LEVEL = 'exploration'
RULE = ('Each case is a batch of generated lists (0-12 entries; single days "YYYY/MM/DD" and ranges '
        '"YYYY/MM/DD - YYYY/MM/DD", years 2-9000, spans crossing month / year / Feb-29 boundaries, '
        'duplicates, nested and abutting ranges) run through find_days_to_exclude + expand_time_windows; the '
        'result is compared with a datetime.date model, and re-run on a permutation and on a duplicated copy '
        'of the list. Malformed lists (letters, impossible dates, wrong number of "-" parts incl. ISO dates, '
        'empty / NaT, reversed ranges) must raise ValueError. Non-trivial well-formed list: >= 1 overlap or '
        'duplicate and >= 1 range crossing a month end; every malformed list is non-trivial; distinct by '
        'list content.')
ASSUMPTIONS = ['strings pandas parses leniently but that are outside the documented format ("today", "2020", '
               'times of day, D/M/Y) are not generated',
               'malformed means: denotes no calendar day under any reading, or a reversed range']
EXHAUSTIVE = {'quick': False, 'thorough': False}
MINIMA = {'quick': {'parsed_window_reuse': 300, 'feat_year-below-1000': 50, 'returned_object_edits': 300, 'wellformed': 1500, 'malformed': 600, 'days_checked': 100000, 'distinct_nontrivial': 800},
          'thorough': {'parsed_window_reuse': 4000, 'feat_year-below-1000': 700, 'returned_object_edits': 4000, 'wellformed': 20000, 'malformed': 8000, 'days_checked': 2000000, 'distinct_nontrivial': 10000}}
N = {'quick': 48, 'thorough': 320}
PER = {'quick': 60, 'thorough': 120}

MALFORMED = ['abc', '2020/13/01', '2020/02/30', '2019/02/29', '2020/00/10', '2020/01/32', '2020-01-01',
             '2020/01/01 - 2020/01/05 - 2020/01/09', '   ', '2020/01/01 - ', ' - 2020/01/01',
             '2020/01/01 - abc', 'x/y/z', '2020/01/01 – 2020/01/02', '1900/02/29', '2100/02/29',
             '2021/04/31', '2020/06/31 - 2020/07/02', '2020/01/01 - 2020/02/30', '--', '2020/01/0a', '',
             '2020/1_0/01', '2_020/01/01', '+2020/01/01', '2020/01/01 - 2020/01/0_5', '2020/01/+5', '20_20/1_2/3_1',
             '2020/1 2/01', '2020/01/0 5', '20 20/01/05', '2020/01/05 - 2020/01/1 0', '2 020/01/05 - 2020/01/10']


def n_cases(tier):
  return N[tier]


def gen_case(tier, seed, idx):
  return {'tier': tier, 'seed': seed, 'idx': idx}


def fmt(d, r=None):
  if r is not None and r.random() < 0.15:
    return ('%d/%d/%d' if d.year >= 1000 else '%04d/%d/%d') % (d.year, d.month, d.day)       # un-padded variant of the same format
  return '%04d/%02d/%02d' % (d.year, d.month, d.day)


def rand_day(r):
  u = r.random()
  if u < 0.15:     # around leap days
    y = r.choice([1704, 1896, 1900, 1904, 2000, 2020, 2024, 2100, 2096, 2196])
    return datetime.date(y, 2, 26) + datetime.timedelta(days=r.randrange(0, 6))
  if u < 0.3:      # around year ends
    y = r.randrange(1700, 2200)
    return datetime.date(y, 12, 28) + datetime.timedelta(days=r.randrange(0, 8))
  if u < 0.45:     # around month ends
    y, m = r.randrange(1700, 2201), r.randrange(1, 13)
    first_next = datetime.date(y + (m == 12), (m % 12) + 1, 1)
    return first_next - datetime.timedelta(days=r.randrange(0, 4))
  if u < 0.55:     # far from the present: the format has four year digits
    y = r.choice([1000, 1400, 1600, 1677, 2262, 2263, 2400, 3000, 5000, 9000, 999, 400, 100, 99, 4, 2])
    return datetime.date(y, r.choice([2, 4, 9, 12]), 1) + datetime.timedelta(days=r.randrange(0, 40))
  return datetime.date(r.randrange(1700, 2201), 1, 1) + datetime.timedelta(days=r.randrange(0, 365))


def gen_list(r):
  """Returns (entries, covered set of dates, features)."""
  n = r.choice([0, 1, 1, 2, 3, 4, 5, 6, 8, 12])
  entries, spans = [], []
  anchor = rand_day(r)
  for _ in range(n):
    u = r.random()
    if spans and u < 0.35:                 # overlap / nest / abut an earlier span
      a0, b0 = r.choice(spans)
      mode = r.choice(['overlap', 'nest', 'abut', 'dup'])
      if mode == 'overlap':
        a = a0 + datetime.timedelta(days=r.randrange(0, (b0 - a0).days + 1))
        b = b0 + datetime.timedelta(days=r.randrange(0, 10))
      elif mode == 'nest':
        a = a0 + datetime.timedelta(days=r.randrange(0, (b0 - a0).days + 1))
        b = a + datetime.timedelta(days=r.randrange(0, (b0 - a).days + 1))
      elif mode == 'abut':
        a = b0 + datetime.timedelta(days=1)
        b = a + datetime.timedelta(days=r.randrange(0, 12))
      else:
        a, b = a0, b0
    else:
      a = anchor + datetime.timedelta(days=r.randrange(-40 if anchor.year > 2 else 0, 40)) if r.random() < 0.6 else rand_day(r)
      length = r.choice([0, 0, 1, 2, 6, 13, 30, 45, 100, 400]) if r.random() < 0.97 else 2000
      b = a + datetime.timedelta(days=length)
    if b.year > 9990:
      continue
    spans.append((a, b))
    if a == b and r.random() < 0.7:
      entries.append(fmt(a, r))
    else:
      sep = r.choice([' - ', ' - ', ' - ', '-', ' -  '])
      entries.append(fmt(a, r) + sep + fmt(b, r))
  covered = set()
  for a, b in spans:
    d = a
    while d <= b:
      covered.add(d)
      d += datetime.timedelta(days=1)
  total = sum((b - a).days + 1 for a, b in spans)
  feats = set()
  if total > len(covered):
    feats.add('overlap')
  if any(a.month != b.month or a.year != b.year for a, b in spans):
    feats.add('month-cross')
  if any(a.year != b.year for a, b in spans):
    feats.add('year-cross')
  if any(d.month == 2 and d.day == 29 for d in covered):
    feats.add('leap-day')
  if any(a.year < 1000 for a, b in spans):
    feats.add('year-below-1000')
  LAST_SPANS[:] = spans
  return entries, covered, feats


LAST_SPANS = []


def to_date(ts):
  """(date, is_midnight) of a pandas Timestamp, via its own fields."""
  midnight = (ts.hour == 0 and ts.minute == 0 and ts.second == 0 and ts.microsecond == 0
              and getattr(ts, 'nanosecond', 0) == 0)
  return datetime.date(ts.year, ts.month, ts.day), midnight


def expand(utils, entries):
  return utils.expand_time_windows(utils.find_days_to_exclude(list(entries)))


def run_case(spec):
  r, _ = util.rngs(PROP, spec['seed'], spec['idx'])
  utils = bootstrap.mm('utils')
  counters = collections.Counter()
  violations = []
  fps = set()
  feats_seen = collections.Counter()
  sample = None
  for _ in range(PER[spec['tier']]):
    entries, covered, feats = gen_list(r)
    before = list(entries)
    out = util.call(expand, utils, entries)
    counters['wellformed'] += 1
    where = 'list %r' % (entries,)
    if entries != before:
      violations.append({'clause': 'input-mutated', 'mech': 'days-input-mutated', 'detail': where[:300]})
    if not out.ok:
      violations.append({'clause': 'wellformed-raises', 'mech': 'days-wellformed-raises:' + out.exc_type,
                         'detail': '%s -> %s' % (where[:300], out.describe())})
      continue
    res = out.value
    if not isinstance(res, list):
      violations.append({'clause': 'type', 'mech': 'days-type', 'detail': '%s returned %s' % (where[:200], type(res).__name__)})
      continue
    got = []
    bad_midnight = 0
    for ts in res:
      d, mid = to_date(ts)
      got.append(d)
      bad_midnight += (not mid)
    counters['days_checked'] += len(got)
    gs = set(got)
    if bad_midnight:
      violations.append({'clause': 'midnight', 'mech': 'days-non-midnight', 'detail': '%s: %d stamps not at midnight' % (where[:200], bad_midnight)})
    if len(got) != len(gs):
      dup = [str(d) for d, c in collections.Counter(got).items() if c > 1][:3]
      violations.append({'clause': 'duplicate', 'mech': 'days-duplicate', 'detail': '%s: duplicated days %s' % (where[:200], dup)})
    if gs - covered:
      violations.append({'clause': 'extra-day', 'mech': 'days-extra', 'detail': '%s: not covered by any entry: %s' % (where[:200], sorted(map(str, gs - covered))[:4])})
    if covered - gs:
      violations.append({'clause': 'missing-day', 'mech': 'days-missing', 'detail': '%s: covered but missing: %s' % (where[:200], sorted(map(str, covered - gs))[:4])})
    # a caller may parse once and expand several selections of the parsed windows: the whole list first, then a
    # sub-list of the SAME window objects, which must expand to exactly the days its own entries cover
    spans = list(LAST_SPANS)
    if len(entries) >= 2 and len(spans) == len(entries) and r.random() < 0.5:
      pw = util.call(utils.find_days_to_exclude, list(entries))
      if pw.ok and isinstance(pw.value, list) and len(pw.value) == len(entries):
        util.call(utils.expand_time_windows, pw.value)
        pick = sorted(r.sample(range(len(entries)), r.randrange(1, len(entries))))
        sub = util.call(utils.expand_time_windows, [pw.value[i] for i in pick])
        counters['parsed_window_reuse'] += 1
        want_sub = set()
        for i in pick:
          d_ = spans[i][0]
          while d_ <= spans[i][1]:
            want_sub.add(d_)
            d_ += datetime.timedelta(days=1)
        if not sub.ok:
          violations.append({'clause': 'purity', 'mech': 'days-window-reuse', 'detail': '%s: expanding a sub-list of already expanded windows raised %s' % (where[:200], sub.describe())})
        else:
          g4 = [to_date(ts)[0] for ts in sub.value]
          if set(g4) != want_sub or len(g4) != len(set(g4)):
            violations.append({'clause': 'purity', 'mech': 'days-window-reuse',
                               'detail': '%s: after the whole parsed list was expanded once, the parsed windows of entries %r expand to %d days instead of %d' % (
                                   where[:200], [entries[i] for i in pick], len(g4), len(want_sub))})
    # a caller may edit what it got back (extend the window list, change a window, clear the day list):
    # a later call with the same strings must not be affected
    if entries and r.random() < 0.4:
      w = util.call(utils.find_days_to_exclude, list(entries))
      if w.ok and isinstance(w.value, list) and w.value:
        try:
          import pandas as pd  # pylint: disable=g-import-not-at-top
          w.value.append(w.value[0])
          w.value[0].first_day = w.value[0].first_day - pd.Timedelta(days=3)
          del w.value[-1:]
          w.value.append(type(w.value[0])(w.value[0].first_day - pd.Timedelta(days=40), w.value[0].first_day - pd.Timedelta(days=38)))
          res.clear()
        except Exception:  # pylint: disable=broad-except
          pass
        counters['returned_object_edits'] += 1
        again = util.call(expand, utils, entries)
        if not again.ok:
          violations.append({'clause': 'purity', 'mech': 'days-state-leak', 'detail': '%s: second call after the caller edited the first result raised %s' % (where[:200], again.describe())})
        else:
          g3 = [to_date(ts)[0] for ts in again.value]
          if set(g3) != covered or len(g3) != len(set(g3)):
            violations.append({'clause': 'purity', 'mech': 'days-state-leak',
                               'detail': '%s: after the caller edited the objects returned by an earlier call, the same strings expand to %d days instead of %d' % (where[:200], len(g3), len(covered))})
    # order / duplication independence
    perm = list(entries)
    r.shuffle(perm)
    doubled = perm + [r.choice(entries)] * 2 if entries else perm
    for label, variant in (('permuted', perm), ('duplicated', doubled)):
      o2 = util.call(expand, utils, variant)
      counters['variants'] += 1
      if not o2.ok:
        violations.append({'clause': 'variant-raises', 'mech': 'days-variant-raises', 'detail': '%s %s -> %s' % (label, variant, o2.describe())})
      else:
        g2 = [to_date(ts)[0] for ts in o2.value]
        if set(g2) != gs or len(g2) != len(set(g2)):
          violations.append({'clause': 'order-dependence', 'mech': 'days-order-dependence',
                             'detail': '%s list %r gives a different day set (%d vs %d days)' % (label, variant, len(g2), len(gs))})
    for f in feats:
      feats_seen[f] += 1
    if 'overlap' in feats and 'month-cross' in feats:
      fps.add(util.fp(entries))
      if sample is None:
        sample = {'kind': 'well-formed', 'entries': entries, 'days_expected': len(covered), 'features': sorted(feats)}
    # malformed variant of the same list
    if r.random() < 0.5:
      bad = list(entries)
      u = r.random()
      if u < 0.6 or not entries:
        token = r.choice(MALFORMED)
        label = 'malformed-entry'
      else:
        a = rand_day(r)
        b = a + datetime.timedelta(days=r.randrange(1, 400))
        token = fmt(b) + ' - ' + fmt(a)
        label = 'reversed-range'
      bad.insert(r.randrange(0, len(bad) + 1), token)
      o3 = util.call(expand, utils, bad)
      counters['malformed'] += 1
      fps.add(util.fp(['bad'] + bad))
      if o3.ok:
        violations.append({'clause': label, 'mech': 'days-accepts-' + label,
                           'detail': 'list %r (bad entry %r) did not raise; returned %d days' % (bad, token, len(o3.value))})
      elif not isinstance(o3.exc, ValueError):
        violations.append({'clause': label + '-type', 'mech': 'days-%s-type:%s' % (label, o3.exc_type),
                           'detail': 'list %r (bad entry %r) -> %s' % (bad, token, o3.describe())})
    if len(violations) > 30:
      break
  return {'nontrivial': False, 'nontrivial_fps': sorted(fps), 'fp': 'batch-%d' % spec['idx'],
          'classes': ['batch'], 'counters': dict(counters, **{'feat_' + k: v for k, v in feats_seen.items()}),
          'violations': violations[:30], 'sample': sample}
