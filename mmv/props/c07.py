"""C07 — the iROAS summary is coherent with its incremental response and cost.

Reference model: response-side figures from the C06 closed form (never from calling the
same summary again), incremental cost from the observed treatment cost minus the OLS
counterfactual; determinism and scale-equivariance are run-pair comparisons.
"""
import collections
import math

import numpy as np
from scipy import stats

from mmv import bootstrap
from mmv import gen
from mmv import tbrref
from mmv import util

PROP = 'C07'
LEVEL = 'exploration'
RULE = ('Generated experiment frames in both cost scenarios (fixed: pre-period and control test-period costs exactly 0; '
        'variable: all costs > 0 at scales 1e-6..1e3 with a clearly non-zero incremental cost, |z| >= 8; mixed: only the '
        'treatment group spends before the test, or only the control group spends in the test - label judged only), with / without cooldown, tails 1/2, '
        'levels in (0,1), thresholds on both sides. Fixed: estimate / lower / upper vs closed-form response posterior / '
        'incremental cost, incremental_response_{lower,upper} = bounds x cost, probability, scenario label. Variable: two '
        'calls with the same random_state must agree; lower <= estimate <= upper; incremental figures vs closed form. Both: '
        'cost x a and response x b (powers of two, threshold x b/a) must scale iROAS figures by b/a and leave probability '
        'and relative lift unchanged. Non-trivial: judged case; distinct by (scenario, tails, level, n_pre, n_test, n_cool).')
ASSUMPTIONS = ['tails=1 with level < 0.5 ordering failures are classified under the known-finding key one-sided-level-below-half',
               'variable-cost cases with |incremental cost / its posterior scale| < 8 are skipped (ratio of t variables too heavy-tailed)']
EXHAUSTIVE = {'quick': False, 'thorough': False}
MINIMA = {'quick': {'fixed_with_cooldown_spend': 15, 'equivariance_extreme_units': 30, 'equivariance_tiny_cost_unit': 15, 'mixed_cost_cases': 100, 'refits': 80, 'fixed_checked': 120, 'variable_checked': 200, 'equivariance_pairs': 330, 'determinism_pairs': 200,
                    'distinct_nontrivial': 400},
          'thorough': {'fixed_with_cooldown_spend': 200, 'equivariance_extreme_units': 400, 'equivariance_tiny_cost_unit': 200, 'mixed_cost_cases': 1500, 'refits': 1200, 'fixed_checked': 2000, 'variable_checked': 3000, 'equivariance_pairs': 5000, 'determinism_pairs': 3000,
                       'distinct_nontrivial': 6000}}
N = {'quick': 640, 'thorough': 9000}
NSIMS = {'quick': 2000, 'thorough': 10000}


def n_cases(tier):
  return N[tier]


def gen_case(tier, seed, idx):
  return {'tier': tier, 'seed': seed, 'idx': idx}


def tot(exp, col, periods):
  dates = [d for d, p in zip(exp['dates'], exp['periods']) if p in periods]
  return gen.group_totals(exp['frame'], col, 1, dates), gen.group_totals(exp['frame'], col, 2, dates)


def run_case(spec):
  r, g = util.rngs(PROP, spec['seed'], spec['idx'])
  mod = bootstrap.mm('tbr_iroas')
  scenario = ['fixed', 'variable', 'fixed', 'variable', 'variable', 'treatment_pre_only', 'control_test_only',
              'variable'][spec['idx'] % 8]
  if spec['idx'] % 16 == 15:
    scenario = 'bystander_pre_only'       # pre-period spend only in geos outside the two experiment groups
  # total non-incremental cost anywhere between 1e-7 and 1e7: "zero" must mean zero, not "small"
  cost_scale = 1.0 if scenario != 'variable' else r.choice([1.0, 1.0, 1e-6, 1e-4, 1e3])
  tiny_total = scenario == 'variable' and spec['idx'] % 16 == 1     # non-incremental cost of a few 1e-9 in total
  extras = set()
  if r.random() < 0.2 or scenario == 'bystander_pre_only':
    extras.add('unassigned_geo')
  cooldown_spend = r.choice([0.0, 0.0, 0.5, 1.0]) if scenario in ('fixed', 'variable') else 0.0
  exp = gen.gen_experiment(r, g, extras=extras, cost_mode=scenario, cost_scale=cost_scale, cooldown_spend=cooldown_spend,
                           n_pre=gen.weighted(r, [(3, 0.5), (4, 0.5), (5, 1), (r.randrange(6, 15), 4), (r.randrange(15, 60), 4)]))
  frame = exp['frame']
  if tiny_total:
    # "zero" must mean zero: a total of 2e-9 .. 8e-9 (well above the 1e-10 the library treats as rounding residue)
    pre_or_ctl_test = (frame['period'] == 0) | ((frame['period'] == 1) & (frame['group'] == 1))
    total = float(frame.loc[pre_or_ctl_test, 'cost'].sum())
    if total > 0:
      frame = frame.copy()
      frame['cost'] = frame['cost'].astype(float) * (r.uniform(2e-9, 8e-9) / total)
      exp = dict(exp, frame=frame)
  use_cool = r.random() < 0.6
  level = r.choice([0.9, 0.8, 0.95, 0.5, 0.99, round(r.uniform(0.05, 0.97), 3), 0.3])
  tails = r.choice([1, 2])
  nsims = NSIMS[spec['tier']]
  counters = collections.Counter()
  violations = []
  desc = {k: exp[k] for k in ('n_pre', 'n_test', 'n_cool', 'n_ctl', 'n_trt', 'shape', 'extras', 'lift', 'int_dtype')}
  desc.update(cooldown_spend=cooldown_spend, scenario=scenario, use_cooldown=use_cool, level=level, tails=tails, cost_scale=cost_scale, tiny_total=tiny_total)

  def add(clause, mech, detail):
    violations.append({'clause': clause, 'mech': mech, 'detail': '%s; case %r' % (detail, desc)})

  analysed = (1, 2) if use_cool else (1,)
  xr_pre, yr_pre = tot(exp, 'response', (0,))
  xr_an, yr_an = tot(exp, 'response', analysed)
  xc_pre, yc_pre = tot(exp, 'cost', (0,))
  xc_an, yc_an = tot(exp, 'cost', analysed)
  xc_t, yc_t = tot(exp, 'cost', (1,))
  rr = tbrref.Ref(xr_pre, yr_pre, xr_an, yr_an)
  if rr.zero_resid or rr.degenerate:
    return {'nontrivial': False, 'fp': util.fp(desc), 'classes': ['zero-residual-variance'], 'counters': {'zero_variance_inputs': 1},
            'violations': [], 'sample': None}
  kappa = 1.0 + (rr.xbar / max(float(np.std(xr_pre)), 1e-300)) ** 2
  rt = 1e-9 + 2e-15 * kappa
  vol = float(np.abs(yr_an).sum() + np.abs(yr_pre).mean() * len(yr_an))
  rt_sig = 200 * 2.2e-16 * float(np.abs(yr_pre).max()) / rr.sigma      # near-perfect fits (see C06)
  thr_base = r.choice([0.0, 0.0, 0.5, 2.0, -1.0])
  model = mod.TBRiROAS(use_cooldown=use_cool)
  if r.random() < 0.3:
    decoy = gen.gen_experiment(r, g, cost_mode=r.choice(['fixed', 'variable']))
    util.call(lambda: (model.fit(decoy['frame']), model.summary(nsims=200, random_state=1)))
    counters['refits'] += 1
  fit = util.call(model.fit, frame)
  if not fit.ok:
    add('fit', 'iroas-fit-raises:' + fit.exc_type, fit.describe())
    return {'nontrivial': True, 'fp': util.fp(desc), 'classes': [scenario], 'counters': {}, 'violations': violations, 'sample': None}
  seed = r.randrange(1, 1 << 30)
  s1 = util.call(model.summary, level=level, posterior_threshold=thr_base, tails=tails, nsims=nsims, random_state=seed)
  mixed = scenario in ('treatment_pre_only', 'control_test_only', 'bystander_pre_only')
  if mixed:
    # one group never spends: the cost regression is degenerate, so only the scenario label is judged
    counters['mixed_cost_cases'] += 1
    if s1.ok:
      got = str(s1.value.iloc[-1]['scenario'])
      counters['label_checked'] += 1
      if got != 'variable':
        add('scenario', 'scenario-label', 'scenario reported %r although %s' % (
            got, 'the treatment group has non-zero pre-period cost' if scenario == 'treatment_pre_only'
            else 'geos outside the two groups have non-zero pre-period cost' if scenario == 'bystander_pre_only'
            else 'the control group has non-zero test-period cost'))
    else:
      counters['mixed_cost_summary_raised'] += 1
    return {'nontrivial': s1.ok, 'fp': util.fp(desc), 'classes': [scenario], 'counters': dict(counters),
            'violations': violations, 'sample': dict(desc)}
  if not s1.ok:
    add('summary', 'iroas-summary-raises:' + s1.exc_type, s1.describe())
    return {'nontrivial': True, 'fp': util.fp(desc), 'classes': [scenario], 'counters': {}, 'violations': violations, 'sample': None}
  row = s1.value.iloc[-1]
  label = str(row['scenario'])
  want_label = 'fixed' if (np.all(xc_pre == 0) and np.all(yc_pre == 0) and np.all(xc_t == 0)) else 'variable'
  counters['label_checked'] += 1
  if label != want_label:
    add('scenario', 'scenario-label', 'scenario reported %r; pre-period and control test-period costs are %s' % (
        label, 'all zero' if want_label == 'fixed' else 'not zero'))
  est, low, up = float(row['estimate']), float(row['lower']), float(row['upper'])
  alpha = (1 - level) / tails
  tq = float(stats.t.ppf(alpha, rr.df))
  one_sided_low = tails == 1 and level < 0.5
  if label == 'fixed' and want_label == 'fixed':
    counters['fixed_checked'] += 1
    cost = float(yc_an.sum())              # counterfactual cost is 0 in the fixed scenario
    if use_cool and exp['n_cool'] and float(yc_an.sum()) != float(yc_t.sum()):
      counters['fixed_with_cooldown_spend'] += 1
    loc, sc = float(rr.loc[-1]), float(rr.scale[-1])
    atol = (rt * vol + (1e-9 + rt_sig) * abs(sc * tq)) / abs(cost)
    want = {'estimate': loc / cost, 'lower': (loc + sc * tq) / cost,
            'upper': math.inf if tails == 1 else (loc - sc * tq) / cost}
    for k, wv in want.items():
      gv = float(row[k])
      if not (gv == wv or util.close(gv, wv, rtol=rt * 10, atol=atol)):
        add('fixed-' + k, 'fixed-' + k, 'fixed-cost %s=%.12g, response-effect figure / incremental cost = %.12g (cost %.9g)' % (k, gv, wv, cost))
        break
    if not util.close(float(row['incremental_cost']), cost, rtol=1e-9, atol=1e-9 * cost):
      add('fixed-cost', 'fixed-incremental-cost', 'incremental_cost=%.12g, treatment cost in the analysed periods=%.12g' % (float(row['incremental_cost']), cost))
    if not util.close(float(row['incremental_response']), loc, rtol=rt, atol=rt * vol):
      add('fixed-response', 'fixed-incremental-response', 'incremental_response=%.12g, closed form %.12g' % (float(row['incremental_response']), loc))
    irl, iru = float(row['incremental_response_lower']), float(row['incremental_response_upper'])
    if not util.close(irl, low * cost, rtol=1e-9, atol=1e-9 * abs(sc)):
      add('fixed-response-lower', 'fixed-incremental-response-lower', 'incremental_response_lower=%.12g, lower x cost=%.12g' % (irl, low * cost))
    if not (iru == up * cost or util.close(iru, up * cost, rtol=1e-9, atol=1e-9 * abs(sc))):
      add('fixed-response-upper', 'fixed-incremental-response-upper', 'incremental_response_upper=%.12g, upper x cost=%.12g' % (iru, up * cost))
    zthr = (thr_base * cost - loc) / sc
    p_want = float(1.0 - stats.t.cdf(zthr, rr.df))
    p_tol = 1e-9 + float(stats.t.pdf(zthr, rr.df)) * (rt * vol / sc + (rt * 10 + rt_sig) * abs(zthr)) * 10
    if abs(float(row['probability']) - p_want) > p_tol:
      add('fixed-probability', 'fixed-probability', 'probability=%.10g, P(effect/cost > %g)=%.10g' % (float(row['probability']), thr_base, p_want))
  elif label == 'variable' and want_label == 'variable':
    rc = tbrref.Ref(xc_pre, yc_pre, xc_t, yc_t)
    z = 0.0 if (rc.zero_resid or rc.degenerate) else abs(float(rc.loc[-1]) / float(rc.scale[-1]))
    if z < 8:
      counters['skipped_weak_cost'] += 1
      return {'nontrivial': False, 'fp': util.fp(desc), 'classes': [scenario, 'weak-cost'], 'counters': dict(counters),
              'violations': violations, 'sample': None}
    counters['variable_checked'] += 1
    s2 = util.call(model.summary, level=level, posterior_threshold=thr_base, tails=tails, nsims=nsims, random_state=seed)
    counters['determinism_pairs'] += 1
    if not s2.ok or not s1.value.equals(s2.value):
      add('determinism', 'variable-not-deterministic', 'two summary() calls with random_state=%d differ' % seed)
    if not util.close(float(row['incremental_response']), float(rr.loc[-1]), rtol=rt, atol=rt * vol):
      add('variable-response', 'variable-incremental-response', 'incremental_response=%.12g, closed form %.12g' % (float(row['incremental_response']), float(rr.loc[-1])))
    kc = 1.0 + (rc.xbar / max(float(np.std(xc_pre)), 1e-300)) ** 2
    if not util.close(float(row['incremental_cost']), float(rc.loc[-1]), rtol=1e-9 + 2e-15 * kc, atol=(1e-9 + 2e-15 * kc) * float(np.abs(yc_t).sum())):
      add('variable-cost', 'variable-incremental-cost', 'incremental_cost=%.12g, closed form (test period) %.12g' % (float(row['incremental_cost']), float(rc.loc[-1])))
    want_irl = float(rr.loc[-1] + rr.scale[-1] * tq)
    if not util.close(float(row['incremental_response_lower']), want_irl, rtol=rt * 10, atol=rt * vol + (1e-9 + rt_sig) * abs(float(rr.scale[-1]) * tq)):
      add('variable-response-lower', 'variable-incremental-response-lower', 'incremental_response_lower=%.12g, posterior quantile %.12g' % (
          float(row['incremental_response_lower']), want_irl))
  if not (low <= est <= up):
    if one_sided_low:
      add('ordering', 'one-sided-level-below-half', 'summary(level=%r, tails=1): lower=%.9g > estimate=%.9g' % (level, low, est))
    else:
      add('ordering', '%s-ordering' % label, '%s-cost summary(level=%r, tails=%d): lower=%.12g estimate=%.12g upper=%.12g' % (label, level, tails, low, est, up))
  # ---- scale equivariance
  a = 2.0 ** (r.randrange(0, 6) if tiny_total else r.randrange(-3, 6))
  b = 2.0 ** r.randrange(-3, 8)
  if r.random() < 0.15:
    # extreme, opposite units (response in millions of the unit, cost in micro-units): iROAS figures around 1e-18
    # (daily cost totals are kept below ~1e12: from ~1e14 on, the pinv-based OLS of the cost regression treats the
    # design matrix [1, x] as rank deficient - rcond 1e-15 - and silently loses the intercept; see DESIGN 11.2)
    a, b = 2.0 ** (r.randrange(20, 31) - (10 if cost_scale >= 1e3 else 0)), 2.0 ** -r.randrange(20, 31)
    counters['equivariance_extreme_units'] += 1
  elif scenario == 'fixed' and r.random() < 0.3:
    # the other way round: cost booked in millions / billions of the unit, so that the incremental cost of the whole
    # test period is ~1e-6 .. 1e-9 in that unit. Fixed-cost frames only: there the non-incremental cost is exactly 0
    # at every scale, whereas a variable-cost frame this small falls under the library's documented "approx equal to
    # zero" scenario test (absolute tolerance) and legitimately turns into a fixed-cost one - not judged.
    a, b = 2.0 ** -r.randrange(24, 34), 2.0 ** r.randrange(-3, 8)
    counters['equivariance_tiny_cost_unit'] += 1
  f2 = frame.copy()
  f2['cost'] = f2['cost'] * a
  f2['response'] = f2['response'] * b
  m2 = mod.TBRiROAS(use_cooldown=use_cool)
  e2 = util.call(lambda: (m2.fit(f2), m2.summary(level=level, posterior_threshold=thr_base * b / a, tails=tails, nsims=nsims, random_state=seed))[1])
  counters['equivariance_pairs'] += 1
  if not e2.ok:
    add('equivariance', 'equivariance-raises:' + e2.exc_type, e2.describe())
  else:
    row2 = e2.value.iloc[-1]
    q = b / a
    for k in ('estimate', 'lower', 'upper', 'precision'):
      v1, v2 = float(row[k]) * q, float(row2[k])
      width = abs(float(row['precision'])) if math.isfinite(float(row['precision'])) else abs(float(row['estimate']))
      # iROAS figures are (differences of large response totals) / cost: absolute accuracy ~ eps * volume / cost
      noise_floor = 1e-11 * vol / max(abs(float(row['incremental_cost'])), 1e-300)
      if not (v1 == v2 or util.close(v1, v2, rtol=1e-7, atol=(1e-9 * (abs(float(row['estimate'])) + width) + noise_floor) * q)):
        add('equivariance', 'equivariance:' + k, 'cost x %g, response x %g: %s=%.12g, wanted %.12g' % (a, b, k, v2, v1))
        break
    # when the treatment follows the control almost perfectly, residuals (hence sigma, z-values, probabilities) carry a
    # relative rounding noise of about eps * |y| / sigma
    rt_sigma = 200 * 2.2e-16 * float(np.abs(yr_pre).max()) / rr.sigma
    for k in ('probability', 'relative_lift', 'relative_lift_lower', 'relative_lift_upper'):
      v1, v2 = float(row[k]), float(row2[k])
      if not (v1 == v2 or util.close(v1, v2, rtol=1e-7 + 10 * rt_sigma, atol=1e-9 + 10 * rt_sigma)):
        add('equivariance', 'equivariance:' + k, 'cost x %g, response x %g: %s changed from %.12g to %.12g' % (a, b, k, v1, v2))
        break
    if str(row2['scenario']) != label:
      add('equivariance', 'equivariance:scenario', 'scaling cost by %g changes the scenario from %s to %s' % (a, label, row2['scenario']))
  return {'nontrivial': True, 'fp': util.fp([scenario, tails, level, exp['n_pre'], exp['n_test'], exp['n_cool'], use_cool]),
          'classes': [scenario, 'tails=%d' % tails], 'counters': dict(counters), 'violations': violations[:6],
          'sample': dict(desc, estimate=est, lower=low, upper=up, scenario_reported=label)}
