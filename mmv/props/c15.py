"""C15 — the canonical data object faithfully represents the input panel.

Oracle: a dictionary-based pivot in plain Python (math.fsum), independent of pandas;
eligibility reconciliation modelled on the generator's own rows.
"""
import collections
import math
import random

import numpy as np
import pandas as pd

from mmv import bootstrap
from mmv import gen
from mmv import searchlab as sl
from mmv import util

PROP = 'C15'
LEVEL = 'exploration'
RULE = ('Generated long-format frames (1-9 geos, 4-60 dates; shuffled rows; int / mixed-int / numeric-string / '
        'name IDs, also as object dtype or mixed int/str spellings; datetime64 or ISO-string dates; missing (geo, date) rows; '
        'positive, negative and mixed-sign responses; extra unrelated columns, some with NaN) with '
        'eligibility tables that are absent, equal to, a strict subset of, or a superset of the geos in the data '
        '(extra geos excludable or not). Checked against a pure-Python pivot: df rows / columns / values / row '
        'order, geo_share, geos_in_data, assignable, reconciliation outcome (drop vs ValueError), and for 3 random '
        'ordered geo_index subsets per case: positional geo_assignments and aggregate_time_series / '
        'aggregate_geo_share over random index sets. Non-trivial: (>= 1 missing cell or table != data geos) and a '
        'geo_index that is not in canonical order; distinct by input description.')
ASSUMPTIONS = ['dates are datetime64 or ISO strings (sortable = chronological); no duplicate (geo, date) rows; no NaN responses',
               'row-order ties in mean response (within 1e-12 relative) may appear in either order']
EXHAUSTIVE = {'quick': False, 'thorough': False}
MINIMA = {'quick': {'all_nan_geo_cases': 25, 'eligibility_objects_compared': 250, 'second_live_object': 80, 'objects': 300, 'aggregates_checked': 2000, 'reject_expected': 20, 'dropped_rows_cases': 20,
                    'distinct_nontrivial': 100},
          'thorough': {'all_nan_geo_cases': 300, 'eligibility_objects_compared': 3000, 'second_live_object': 1000, 'objects': 4000, 'aggregates_checked': 30000, 'reject_expected': 300, 'dropped_rows_cases': 300,
                       'distinct_nontrivial': 1500}}
N = {'quick': 480, 'thorough': 6000}


def n_cases(tier):
  return N[tier]


def gen_case(tier, seed, idx):
  return {'tier': tier, 'seed': seed, 'idx': idx}


def run_case(spec):
  r, g = util.rngs(PROP, spec['seed'], spec['idx'])
  dmod = bootstrap.mm('tbrmmdata')
  emod = bootstrap.mm('geoeligibility')
  G = r.randrange(1, 10)
  D = r.choice([4, 6, 9, 15, 30, 60])
  cls = gen.weighted(r, [('continuous', 4), ('gappy', 4), ('integer', 1), ('duplicates', 1), ('giant', 1)])
  id_style = r.choice(['str', 'int', 'intmix', 'numstr'])
  panel = gen.gen_panel(r, g, G, D, cls=cls, id_style=id_style, date_style=r.choice(['ts', 'iso']))
  sign = gen.weighted(r, [('positive', 6), ('negative', 1.5), ('mixed', 1.5)])
  if cls == 'giant':
    sign = 'positive'        # an offset of the size of the giant geo would wipe out the digits of all the others
  if sign != 'positive':
    # responses may be negative (net flows, differences); the total may be negative as well
    v = panel['values'] - (2.0 if sign == 'negative' else 1.0) * float(panel['values'].mean()) * (
        1.0 if sign == 'negative' else r.choice([0.9, 1.3]))
    if abs(float(np.where(panel['present'], v, 0.0).mean(axis=1).sum())) > 1e-6 * float(np.abs(v).mean()):
      panel['values'] = v
    else:
      sign = 'positive'
  resp = r.choice(['response', 'sales', 'y'])
  frame = gen.panel_frame(panel, r, shuffle=True, response=resp, extra_col=r.random() < 0.3)
  geo_dtype = 'native'
  u = r.random()
  if u < 0.15:
    frame['geo'] = frame['geo'].astype(object)            # same IDs, object dtype
    geo_dtype = 'object'
  elif u < 0.25 and id_style in ('int', 'intmix'):
    # mixed int / str spellings of different geos in one object column (as after concatenating two sources)
    half = set(panel['ids'][::2])
    frame['geo'] = pd.Series([str(v) if v in half else v for v in frame['geo']], dtype=object)
    geo_dtype = 'mixed'
  if r.random() < 0.2:
    frame['spend'] = [float('nan') if r.random() < 0.3 else 2.0 for _ in range(len(frame))]
  ids = [str(i) for i in panel['ids']]
  counters = collections.Counter()
  violations = []

  # ---- eligibility table relative to the data
  mode = gen.weighted(r, [('none', 2), ('equal', 3), ('subset', 2), ('superset_excludable', 2),
                          ('superset_required', 1.5), ('subset_and_superset', 1)])
  rows = None
  extra = {}
  if mode != 'none':
    rows = gen.gen_elig_rows(r, panel['ids'], r.choice(['mixed', 'mostly_ctx', 'hostile']))
    if mode in ('subset', 'subset_and_superset') and len(rows) > 1:
      for gid in r.sample(sorted(rows), r.randrange(1, max(2, len(rows) // 2))):
        del rows[gid]
    if mode in ('superset_excludable', 'subset_and_superset'):
      for k in range(r.randrange(1, 3)):
        rows['ZZ%d' % k] = r.choice(['x_fixed', 'cx', 'tx', 'ctx'])
        extra['ZZ%d' % k] = rows['ZZ%d' % k]
    if mode == 'superset_required':
      rows['ZZreq'] = r.choice(['c_fixed', 't_fixed', 'ct'])
      extra['ZZreq'] = rows['ZZreq']
      if r.random() < 0.5:
        rows['ZZopt'] = 'ctx'
        extra['ZZopt'] = 'ctx'
  nan_geo = None
  if spec['idx'] % 7 == 3 and geo_dtype == 'native' and mode != 'superset_required':
    # a geo that is listed in the frame but has no usable observation at all (every response missing): for the
    # canonical table it is absent from the data, so its eligibility row is treated like that of any absent geo
    nan_geo = 'ZZnan' if id_style in ('str', 'numstr') else 987654
    add_rows = pd.DataFrame({'geo': [nan_geo] * D, 'date': list(panel['dates']), resp: [float('nan')] * D})
    for c_ in frame.columns:
      if c_ not in add_rows.columns:
        add_rows[c_] = 1.0
    frame = pd.concat([frame, add_rows[list(frame.columns)]], ignore_index=True)
    frame = frame.sample(frac=1.0, random_state=r.randrange(1 << 30)).reset_index(drop=True)
    if rows is not None:
      if r.random() < 0.7:
        rows[str(nan_geo)] = r.choice(['x_fixed', 'cx', 'tx', 'ctx'])
        extra[str(nan_geo)] = rows[str(nan_geo)]
        if mode == 'equal':
          mode = 'superset_excludable'
      else:
        rows[str(nan_geo)] = r.choice(['c_fixed', 't_fixed', 'ct'])
        extra[str(nan_geo)] = rows[str(nan_geo)]
        mode = 'superset_required'
    counters['all_nan_geo_cases'] += 1
  desc = {'geos': ids, 'id_style': id_style, 'sign': sign, 'geo_dtype': geo_dtype, 'n_dates': D, 'panel_class': cls, 'elig_mode': mode,
          'eligibility': rows, 'response_column': resp, 'all_nan_geo': nan_geo}
  before = sl.frame_fingerprint(frame)
  elig = None
  if rows is not None:
    elig = emod.GeoEligibility(gen.elig_frame(rows, random.Random(spec['idx']), index_keyed=r.random() < 0.4))
  elig_before = elig.data.copy(deep=True) if elig is not None else None
  out = util.call(dmod.TBRMMData, frame, resp, elig)
  counters['constructions'] += 1
  if elig is not None:
    try:
      same_elig = elig.data.equals(elig_before) and list(elig.data.index) == list(elig_before.index)
    except Exception:  # pylint: disable=broad-except
      same_elig = False
    counters['eligibility_objects_compared'] += 1
    if not same_elig:
      violations.append({'clause': 'input-mutated', 'mech': 'data-eligibility-object-mutated',
                         'detail': 'the caller\'s GeoEligibility object changed during TBRMMData(): %d rows before, %d after' % (
                             len(elig_before), len(elig.data))})
  if sl.frame_fingerprint(frame) != before:
    violations.append({'clause': 'input-mutated', 'mech': 'data-input-mutated', 'detail': 'caller frame changed by TBRMMData()'})
  expect_reject = mode == 'superset_required'
  nontrivial = False
  if expect_reject:
    counters['reject_expected'] += 1
    if out.ok:
      violations.append({'clause': 'missing-required-geo', 'mech': 'data-accepts-missing-required',
                         'detail': 'table requires geos %s absent from the data, but the object was built' % sorted(extra)})
    elif out.exc_type != 'ValueError':
      violations.append({'clause': 'missing-required-geo', 'mech': 'data-reconcile:' + out.exc_type,
                         'detail': 'table with a non-excludable geo absent from the data -> %s' % out.describe()})
    return {'nontrivial': True, 'fp': util.fp(desc), 'classes': [mode, cls], 'counters': dict(counters),
            'violations': violations, 'sample': {'case': desc, 'outcome': out.describe()},
            'case': desc if violations else None}
  if not out.ok:
    mech = 'data-construct:' + out.exc_type
    if mode in ('subset', 'superset_excludable', 'subset_and_superset'):
      mech = 'data-reconcile:' + out.exc_type
    violations.append({'clause': 'construct', 'mech': mech,
                       'detail': '[%s] TBRMMData() raised %s' % (mode, out.describe())})
    return {'nontrivial': True, 'fp': util.fp(desc), 'classes': [mode, cls], 'counters': dict(counters),
            'violations': violations, 'sample': {'case': desc, 'outcome': out.describe()}, 'case': desc}
  data = out.value
  counters['objects'] += 1
  # a second, live data object over the same geos with different volumes (another response metric, say): whatever is
  # done to it must not show in the first object's answers
  other = None
  if spec['idx'] % 3 == 0:
    f2 = frame.copy()
    geo_col = [c for c in f2.columns if c not in (resp, 'date')][0] if 'geo' not in f2.columns else 'geo'
    try:
      keys = f2[geo_col].astype(str)
      factor = {k_: 0.25 + 1.5 * random.Random('%s-%d' % (k_, spec['idx'])).random() for k_ in keys.unique()}
      f2[resp] = f2[resp].astype(float) * keys.map(factor).astype(float)
      elig2 = emod.GeoEligibility(gen.elig_frame(rows, random.Random(spec['idx']), index_keyed=False)) if rows is not None else None
      o2 = util.call(dmod.TBRMMData, f2, resp, elig2)
      other = o2.value if o2.ok else None
    except Exception:  # pylint: disable=broad-except
      other = None
    counters['second_live_object'] += other is not None

  # ---- own pivot
  vals = np.where(panel['present'], panel['values'], 0.0)
  means = {gid: math.fsum(vals[i]) / D for i, gid in enumerate(ids)}
  total = math.fsum(means.values())
  row_of = {gid: vals[i] for i, gid in enumerate(ids)}
  n_missing = int((~panel['present']).sum())

  def add(clause, mech, detail):
    violations.append({'clause': clause, 'mech': mech, 'detail': detail})

  df = data.df
  idx = list(df.index)
  if sorted(map(str, idx)) != sorted(ids) or not all(isinstance(v, str) for v in idx):
    add('df-rows', 'data-df-rows', 'df rows %r, wanted the geos %r as strings' % (idx, sorted(ids)))
  else:
    cols = list(df.columns)
    want_cols = sorted(panel['dates'])
    if len(cols) != D or any(str(a) != str(b) for a, b in zip(cols, want_cols)):
      add('df-columns', 'data-df-columns', 'df columns are not the %d dates in chronological order: %r...' % (D, cols[:4]))
    else:
      order_of = {str(d): k for k, d in enumerate(panel['dates'])}
      perm = [order_of[str(c)] for c in cols]
      for gid in idx:
        got = np.asarray(df.loc[gid], dtype=float)
        want = row_of[gid][perm]
        if not np.array_equal(got, want):
          k = int(np.argmax(got != want))
          add('df-values', 'data-df-values', 'df[%r][%s]=%r, input has %r (missing cells must be 0)' % (gid, cols[k], got[k], want[k]))
          break
    for a, b in zip(idx, idx[1:]):
      if means[a] < means[b] - 1e-12 * max(abs(means[a]), abs(means[b]), 1e-300):
        add('df-order', 'data-df-order', 'rows not by decreasing mean: %r (%.9g) before %r (%.9g)' % (a, means[a], b, means[b]))
        break
    gs = data.geo_share
    if sorted(gs.index) != sorted(ids):
      add('share-index', 'data-share-index', 'geo_share index %r' % list(gs.index))
    else:
      for gid in ids:
        if not util.close(float(gs[gid]), means[gid] / total, rtol=1e-10):
          add('share', 'data-share', 'geo_share[%r]=%.15g, mean/sum(means)=%.15g' % (gid, float(gs[gid]), means[gid] / total))
          break
    if set(data.geos_in_data) != set(ids):
      add('geos-in-data', 'data-geos-in-data', 'geos_in_data=%r' % sorted(data.geos_in_data))

  # ---- reconciliation and assignable
  if rows is None:
    row_cls = {gid: 'ctx' for gid in ids}
  else:
    row_cls = {gid: c for gid, c in rows.items() if gid in set(ids)}
  want_assignable = {gid for gid, c in row_cls.items() if c != 'x_fixed'}
  if set(data.assignable) != want_assignable:
    add('assignable', 'data-assignable', 'assignable=%r, wanted %r' % (sorted(data.assignable), sorted(want_assignable)))
  kept = util.call(lambda: set(data.geo_eligibility.data.index))
  if kept.ok:
    if kept.value != set(row_cls):
      add('reconcile', 'data-reconcile-rows', 'eligibility rows kept %r, wanted %r (rows of absent geos dropped)' % (
          sorted(kept.value), sorted(row_cls)))
    else:
      for gid, c in row_cls.items():
        got = tuple(int(v) for v in data.geo_eligibility.data.loc[gid, ['control', 'treatment', 'exclude']])
        if got != gen.ROWS[c]:
          add('reconcile', 'data-reconcile-values', 'eligibility row of %r is %r, wanted %r' % (gid, got, gen.ROWS[c]))
          break
  if extra:
    counters['dropped_rows_cases'] += 1

  # ---- geo_index orders, positional assignments, aggregates
  assignable = sorted(want_assignable)
  canonical = [gid for gid in idx if gid in want_assignable]
  noncanonical_seen = False
  reuse_list = None
  for rep in range(4):
    if not assignable or violations:
      break
    k = r.randrange(1, len(assignable) + 1)
    order = r.sample(assignable, k)
    if rep == 3 and reuse_list is not None and len(reuse_list) >= 2:
      # the caller keeps ONE list object, reorders it in place and assigns it again
      reuse_list.reverse()
      order = reuse_list
      k = len(order)
      counters['same_list_reassigned'] += 1
    elif rep == 2:
      reuse_list = order
    elif r.random() < 0.3:
      order = tuple(order)
    if list(order) != [gid for gid in canonical if gid in set(order)]:
      noncanonical_seen = True
    s = util.call(setattr, data, 'geo_index', order)
    counters['geo_index_sets'] += 1
    if other is not None:
      util.call(setattr, other, 'geo_index', list(order))
    if not s.ok:
      add('geo-index', 'data-geo-index:' + s.exc_type, 'geo_index=%r -> %s' % (order, s.describe()))
      break
    if list(data.geo_index) != list(order):
      add('geo-index', 'data-geo-index-getter', 'geo_index getter returns %r after setting %r' % (data.geo_index, order))
    ga = data.geo_assignments
    pos_cls = {i: row_cls[gid] for i, gid in enumerate(order)}
    if set(ga.all) != set(range(k)):
      add('assignments-positional', 'data-assignments-all', 'geo_assignments.all=%r for %d geos' % (sorted(ga.all), k))
    else:
      for name in ['c_fixed', 't_fixed', 'x_fixed', 'ct', 'cx', 'ctx', 'tx']:
        want = {i for i, c in pos_cls.items() if c == name}
        if set(getattr(ga, name)) != want:
          add('assignments-positional', 'data-assignments-class',
              'geo_index=%r: class %s holds positions %r, wanted %r' % (order, name, sorted(getattr(ga, name)), sorted(want)))
          break
    for _ in range(6):
      m = r.randrange(1, k + 1)
      sel = r.sample(range(k), m)
      arg = set(sel) if r.random() < 0.7 else list(sel)
      if other is not None:
        util.call(other.aggregate_time_series, set(sel))
        util.call(other.aggregate_geo_share, set(sel))
      ts = util.call(data.aggregate_time_series, arg)
      sh = util.call(data.aggregate_geo_share, arg)
      counters['aggregates_checked'] += 2
      if not ts.ok or not sh.ok:
        add('aggregate', 'data-aggregate-raises', 'aggregate over %r raised %s' % (arg, (ts if not ts.ok else sh).describe()))
        break
      want_ts = np.zeros(D)
      for i in sel:
        want_ts = want_ts + row_of[order[i]][[{str(d): q for q, d in enumerate(panel['dates'])}[str(c)] for c in df.columns]]
      if not util.arr_close(ts.value, want_ts, rtol=1e-12, atol=1e-12 * float(np.abs(want_ts).max() + 1e-300)):
        add('aggregate-ts', 'data-aggregate-ts', 'geo_index=%r, aggregate_time_series(%r) differs from the sum of rows %r' % (
            order, sel, [order[i] for i in sel]))
        break
      want_sh = math.fsum(means[order[i]] for i in sel) / total
      if not util.close(float(sh.value), want_sh, rtol=1e-10):
        add('aggregate-share', 'data-aggregate-share', 'geo_index=%r, aggregate_geo_share(%r)=%.15g, wanted %.15g' % (
            order, sel, float(sh.value), want_sh))
        break
  # an unassignable / unknown geo in geo_index must be refused with ValueError
  bad_pool = [gid for gid in ids if gid not in want_assignable] + ['NOPE']
  bad = util.call(setattr, data, 'geo_index', [r.choice(bad_pool)] + assignable[:1])
  counters['bad_geo_index'] += 1
  if bad.ok:
    add('geo-index-unassignable', 'data-geo-index-accepts-unassignable', 'geo_index with an unassignable geo accepted')
  elif bad.exc_type != 'ValueError':
    add('geo-index-unassignable', 'data-geo-index-unassignable:' + bad.exc_type, bad.describe())

  table_differs = rows is not None and set(rows) != set(ids)
  nontrivial = (n_missing > 0 or table_differs) and noncanonical_seen
  return {'nontrivial': nontrivial, 'fp': util.fp(desc), 'classes': [mode, cls, id_style], 'counters': dict(counters),
          'violations': violations[:8],
          'sample': {'case': desc, 'missing_cells': n_missing, 'assignable': assignable},
          'case': dict(desc, values=[[round(float(v), 6) for v in row] for row in vals]) if violations else None}
