"""C06 — the TBR posterior of the cumulative effect equals the closed-form model.

Reference-model monitor: per-date group totals (pure python) -> numpy OLS -> Kerman (2017)
eq. 5; compared with what the real tbr.TBR reports for every analysed day, under layout
changes (row shuffle, totals split over more geos, unassigned geos / periods), for every
summary column, and against the design-side TBRMMDiagnostics.tbrfit.
"""
import collections
import math

import numpy as np
import pandas as pd
from scipy import stats

from mmv import bootstrap
from mmv import gen
from mmv import tbrref
from mmv import util

PROP = 'C06'
LEVEL = 'exploration'
RULE = ('Generated experiment frames (n_pre 3..59, n_test 1..15, cooldown 0..7 days, 1-6 geos per group, control shapes '
        'iid / walk / swing, optional unassigned geos, a period -1 gap, dates after cooldown; shuffled rows) are fitted '
        'with the real TBR (with / without cooldown). For every analysed day: df = n_pre - 2, loc and scale vs the closed '
        'form. Layout variants (re-shuffled rows, each group total split over more geos, added unassigned geos and dates) '
        'must give the same posterior. summary() is checked column by column for levels in (0,1), tails 1/2, thresholds on '
        'both sides, rescale > 0, report all/last; tbrfit() vs the last-day estimate / half-width. Non-trivial: every '
        'fitted case; distinct by (n_pre, n_test, n_cool, variant, level, tails).')
ASSUMPTIONS = ['rescale > 0 (a scaling factor); the ordering / precision clauses for tails=1 with level < 0.5 are classified '
               'under the known-finding key one-sided-level-below-half',
               'tolerance 1e-9 relative plus a conditioning term 2e-15 x (1 + (mean/sd of control)^2)']
EXHAUSTIVE = {'quick': False, 'thorough': False}
MINIMA = {'quick': {'explicit_period_checks': 60, 'refits': 100, 'fits': 600, 'days_checked': 4000, 'summary_rows_checked': 3000, 'variants_checked': 600,
                    'tbrfit_checked': 500, 'tbrfit_after_reuse': 200, 'tbrfit_after_buffer_recycle': 150, 'lagging_label_pairs': 80, 'bare_int_period_checks': 100, 'refit_same_frame_after_edit': 100, 'tbrfit_after_tests': 150, 'distinct_nontrivial': 500},
          'thorough': {'explicit_period_checks': 1000, 'refits': 1500, 'fits': 10000, 'days_checked': 60000, 'summary_rows_checked': 50000, 'variants_checked': 10000,
                       'tbrfit_checked': 8000, 'tbrfit_after_reuse': 3000, 'tbrfit_after_buffer_recycle': 2500, 'lagging_label_pairs': 1200, 'bare_int_period_checks': 1500, 'refit_same_frame_after_edit': 1500, 'tbrfit_after_tests': 2500, 'distinct_nontrivial': 8000}}
N = {'quick': 720, 'thorough': 12000}


def n_cases(tier):
  return N[tier]


def gen_case(tier, seed, idx):
  return {'tier': tier, 'seed': seed, 'idx': idx}


def totals(exp, frame, col, periods_wanted):
  dates = [d for d, p in zip(exp['dates'], exp['periods']) if p in periods_wanted]
  return dates, gen.group_totals(frame, col, 1, dates), gen.group_totals(frame, col, 2, dates)


BASE_COLS = ['date', 'geo', 'group', 'period', 'response', 'cost']


def make_variant(exp, r, g, kind):
  f = exp['frame']
  if kind == 'shuffle':
    return f.sample(frac=1.0, random_state=r.randrange(1 << 30)).reset_index(drop=True)
  if kind == 'split':
    # every geo is split into two geos carrying complementary shares of its values
    w = r.uniform(0.2, 0.8)
    a = f.copy()
    b = f.copy()
    a['response'] = f['response'] * w
    a['cost'] = f['cost'] * w
    b['response'] = f['response'] - a['response']
    b['cost'] = f['cost'] - a['cost']
    b['geo'] = b['geo'] + 1000
    out = pd.concat([a, b], ignore_index=True)
    return out.sample(frac=1.0, random_state=r.randrange(1 << 30)).reset_index(drop=True)
  if kind == 'extras':
    rows = []
    dates = exp['dates']
    periods = exp['periods']
    # the bystander geo sits in a shared table: ITS period labels may run ahead (another experiment's test began
    # two days earlier there); it belongs to neither group, so nothing of it may matter
    ahead = r.choice([0, 2, 2])
    for k, d in enumerate(dates):
      rows.append((d, 9001, -1, periods[min(k + ahead, len(dates) - 1)], float(g.normal(50, 5)), float(abs(g.normal(1, 0.2)))))
    out = pd.concat([f, pd.DataFrame(rows, columns=BASE_COLS)], ignore_index=True)
    # extra dates labelled unassigned (-1) for all geos, before the pre-period
    first = min(dates)
    geos = f[['geo', 'group']].drop_duplicates()
    rows = []
    for j in range(1, 3):
      for gid, grp in zip(geos['geo'], geos['group']):
        rows.append((earlier(first, j), gid, grp, -1, float(g.normal(70, 5)), 0.5))
    out = pd.concat([out, pd.DataFrame(rows, columns=BASE_COLS)], ignore_index=True)
    return out.sample(frac=1.0, random_state=r.randrange(1 << 30)).reset_index(drop=True)
  raise KeyError(kind)


def earlier(d, j):
  """A date label j days before d, in d's own label format."""
  import datetime as _dt
  if isinstance(d, pd.Timestamp):
    return d - pd.Timedelta(days=j)
  if isinstance(d, _dt.date):
    return d - _dt.timedelta(days=j)
  if isinstance(d, str):
    return (_dt.date.fromisoformat(d) - _dt.timedelta(days=j)).isoformat()
  if isinstance(d, int) and d > 10000000:
    return int((_dt.datetime.strptime(str(d), '%Y%m%d').date() - _dt.timedelta(days=j)).strftime('%Y%m%d'))
  return d - j


def run_case(spec):
  r, g = util.rngs(PROP, spec['seed'], spec['idx'])
  tbr = bootstrap.mm('tbr')
  extras = set()
  if r.random() < 0.3:
    extras.add('unassigned_geo')
  if r.random() < 0.25:
    extras.add('gap')
  if r.random() < 0.25:
    extras.add('after')
  exp = gen.gen_experiment(r, g, extras=extras, cost_mode='variable', int_dtype=(10 ** 6 if spec['idx'] % 9 == 4 else None),
                           date_style={3: 'int0', 5: 'yyyymmdd', 6: 'iso', 10: 'date'}.get(spec['idx'] % 11))
  frame = exp['frame']
  use_cool = r.random() < 0.6
  counters = collections.Counter()
  violations = []
  desc = {k: exp[k] for k in ('n_pre', 'n_test', 'n_cool', 'n_ctl', 'n_trt', 'shape', 'extras', 'lift', 'int_dtype')}
  desc['use_cooldown'] = use_cool

  def add(clause, mech, detail):
    violations.append({'clause': clause, 'mech': mech, 'detail': '%s; case %r' % (detail, desc)})

  if r.random() < 0.25:
    # an unrelated, partly missing column must not matter
    frame = frame.copy()
    note = np.where(np.arange(len(frame)) % 3 == 0, np.nan, 1.0)
    frame['other_metric'] = note
    exp = dict(exp, frame=frame)
    counters['frames_with_nan_column'] += 1
  if r.random() < 0.3:
    fit_frame = frame.set_index('geo')
  else:
    fit_frame = frame
  before = frame.copy()
  model = tbr.TBR(use_cooldown=use_cool)
  if r.random() < 0.3:
    # re-use of one model object: fit and summarise a different experiment first
    decoy = gen.gen_experiment(r, g, cost_mode='variable')
    util.call(lambda: (model.fit(decoy['frame'], 'response'), model.summary(report='all'), model.causal_cumulative_distribution()))
    counters['refits'] += 1
  fit = util.call(model.fit, fit_frame, 'response')
  if not fit.ok:
    add('fit', 'tbr-fit-raises:' + fit.exc_type, 'TBR.fit raised %s' % fit.describe())
    return {'nontrivial': True, 'fp': util.fp(desc), 'classes': ['fit-raised'], 'counters': {}, 'violations': violations,
            'sample': None}
  counters['fits'] += 1
  if not frame.equals(before):
    add('input-mutated', 'tbr-input-mutated', 'fit changed the caller frame')
  analysed = (1, 2) if use_cool else (1,)
  d_pre, x_pre, y_pre = totals(exp, frame, 'response', (0,))
  d_an, x_an, y_an = totals(exp, frame, 'response', analysed)
  ref = tbrref.Ref(x_pre, y_pre, x_an, y_an)
  if ref.zero_resid or ref.degenerate:
    return {'nontrivial': False, 'fp': util.fp(desc), 'classes': ['zero-residual-variance'], 'counters': {'zero_variance_inputs': 1},
            'violations': [], 'sample': None}
  kappa = 1.0 + (ref.xbar / max(float(np.std(x_pre)), 1e-300)) ** 2
  rt = 1e-9 + 2e-15 * kappa
  # when the treatment follows the control almost perfectly the residuals are differences of nearly equal numbers:
  # their relative accuracy (and that of sigma and every scale) is about eps * |y| / sigma
  rt_sigma = 200 * 2.2e-16 * float(np.abs(y_pre).max()) / ref.sigma
  rts = max(rt * 10, rt_sigma)
  vol = float(np.abs(y_an).sum() + np.abs(y_pre).mean() * len(y_an))
  at_loc = rt * vol

  def check_posterior(dist, refm, label, n_days):
    df = dist.args[0] if dist.args else dist.kwds.get('df')
    loc = np.atleast_1d(np.asarray(dist.kwds['loc'], dtype=float))
    sc = np.atleast_1d(np.asarray(dist.kwds['scale'], dtype=float))
    counters['days_checked'] += len(loc)
    if float(df) != exp['n_pre'] - 2:
      add('df', 'posterior-df', '%s: df=%r, wanted n_pre-2=%d' % (label, df, exp['n_pre'] - 2))
    if len(loc) != n_days or len(sc) != n_days:
      add('days', 'posterior-days', '%s: %d analysed days reported, wanted %d' % (label, len(loc), n_days))
      return
    if not np.allclose(loc, refm.loc[:n_days], rtol=rt, atol=at_loc):
      k = int(np.argmax(np.abs(loc - refm.loc[:n_days])))
      add('loc', 'posterior-loc', '%s: day %d location %.12g, closed form %.12g' % (label, k + 1, loc[k], refm.loc[k]))
    if not np.allclose(sc, refm.scale[:n_days], rtol=max(max(rt, 1e-9) * 10, rt_sigma), atol=0):
      k = int(np.argmax(np.abs(sc / refm.scale[:n_days] - 1)))
      add('scale', 'posterior-scale', '%s: day %d scale %.12g, Kerman eq.5 gives %.12g' % (label, k + 1, sc[k], refm.scale[k]))

  dist = model.causal_cumulative_distribution()
  check_posterior(dist, ref, 'default periods', len(x_an))
  if r.random() < 0.3:
    # a single period label may be given as a bare int; label 0 (the pre-period: a placebo analysis) is falsy
    d0 = util.call(model.causal_cumulative_distribution, periods=0)
    counters['bare_int_period_checks'] += 1
    if not d0.ok:
      add('periods', 'posterior-explicit-periods-raises:' + d0.exc_type, 'causal_cumulative_distribution(periods=0) raised %s' % d0.describe())
    else:
      check_posterior(d0.value, tbrref.Ref(x_pre, y_pre, x_pre, y_pre), 'periods=0 (pre-period, bare int)', len(x_pre))
  # explicit periods and time index
  if use_cool and exp['n_cool'] > 0 and r.random() < 0.5:
    d1 = model.causal_cumulative_distribution(periods=(1,))
    _, x_t, y_t = totals(exp, frame, 'response', (1,))
    check_posterior(d1, tbrref.Ref(x_pre, y_pre, x_t, y_t), 'periods=(test,)', len(x_t))
  if not use_cool and exp['n_cool'] > 0:
    # the caller may ask for other periods after fitting: test + cooldown on a model built with use_cooldown=False
    d2 = util.call(model.causal_cumulative_distribution, periods=(1, 2))
    _, x_tc, y_tc = totals(exp, frame, 'response', (1, 2))
    counters['explicit_period_checks'] += 1
    if not d2.ok:
      add('periods', 'posterior-explicit-periods-raises:' + d2.exc_type, 'causal_cumulative_distribution(periods=(test, cooldown)) raised %s' % d2.describe())
    else:
      check_posterior(d2.value, tbrref.Ref(x_pre, y_pre, x_tc, y_tc), 'periods=(test, cooldown) on a use_cooldown=False model', len(x_tc))
  tpos = r.choice([r.randrange(0, len(x_an)), -1, 0])
  rs = r.choice([1.0, 0.25, 3.0, 1e-3])
  dt = model.causal_cumulative_distribution(time=tpos, rescale=rs)
  if not (util.close(float(dt.kwds['loc']), rs * ref.loc[tpos], rtol=rt, atol=rs * at_loc) and
          util.close(float(dt.kwds['scale']), rs * ref.scale[tpos], rtol=rts)):
    add('time', 'posterior-time-index', 'time=%d, rescale=%g gives loc %.12g scale %.12g, closed form %.12g %.12g' % (
        tpos, rs, float(dt.kwds['loc']), float(dt.kwds['scale']), rs * ref.loc[tpos], rs * ref.scale[tpos]))

  # ---- layout variants
  kind = r.choice(['shuffle', 'split', 'extras'])
  vframe = make_variant(exp, r, g, kind)
  m2 = tbr.TBR(use_cooldown=use_cool)
  f2 = util.call(m2.fit, vframe, 'response')
  counters['variants_checked'] += 1
  if not f2.ok:
    add('variant', 'layout-variant-raises:%s:%s' % (kind, f2.exc_type), 'variant %s: fit raised %s' % (kind, f2.describe()))
  else:
    dv = m2.causal_cumulative_distribution()
    lv = np.atleast_1d(np.asarray(dv.kwds['loc'], dtype=float))
    sv = np.atleast_1d(np.asarray(dv.kwds['scale'], dtype=float))
    l0 = np.atleast_1d(np.asarray(dist.kwds['loc'], dtype=float))
    s0 = np.atleast_1d(np.asarray(dist.kwds['scale'], dtype=float))
    if lv.shape != l0.shape or not np.allclose(lv, l0, rtol=rt, atol=at_loc) or not np.allclose(sv, s0, rtol=rts):
      add('layout', 'layout-dependence:' + kind, 'layout variant %s changes the posterior (first loc %r vs %r, scale %r vs %r)' % (
          kind, lv[:1], l0[:1], sv[:1], s0[:1]))

  # ---- summary
  for rep in range(3):
    level = r.choice([0.9, 0.8, 0.95, 0.5, 0.99, round(r.uniform(0.02, 0.98), 3), 0.3, 0.1])
    tails = r.choice([1, 2])
    rescale = r.choice([1.0, 1.0, 0.5, 2.0, 1e-3, 37.5])
    thr = r.choice([0.0, 0.0, float(ref.loc[-1] * rescale * 0.5), float(ref.loc[-1] * rescale * 1.5), 10.0, -3.0])
    report = r.choice(['last', 'all'])
    s = util.call(model.summary, level=level, threshold=thr, tails=tails, report=report, rescale=rescale)
    label = 'summary(level=%r, threshold=%r, tails=%d, report=%r, rescale=%r)' % (level, thr, tails, report, rescale)
    if not s.ok:
      add('summary', 'summary-raises:' + s.exc_type, '%s raised %s' % (label, s.describe()))
      continue
    tab = s.value
    want_rows = len(x_an) if report == 'all' else 1
    if len(tab) != want_rows:
      add('report', 'summary-report-rows', '%s has %d rows, wanted %d' % (label, len(tab), want_rows))
      continue
    want_dates = d_an[-want_rows:]
    if [str(d) for d in tab.index] != [str(d) for d in want_dates]:
      add('report', 'summary-report-dates', '%s rows are dated %r..., wanted %r...' % (label, list(tab.index)[:2], want_dates[:2]))
      continue
    alpha = (1 - level) / tails
    one_sided_low = tails == 1 and level < 0.5
    for j in range(want_rows):
      k = len(x_an) - want_rows + j
      row = tab.iloc[j]
      counters['summary_rows_checked'] += 1
      est, low, up, prec = float(row['estimate']), float(row['lower']), float(row['upper']), float(row['precision'])
      sc = float(row['scale'])
      want_est = rescale * ref.loc[k]
      want_sc = rescale * ref.scale[k]
      tq = float(stats.t.ppf(alpha, ref.df))
      want_low = want_est + want_sc * tq
      want_up = math.inf if tails == 1 else want_est - want_sc * tq
      atol = rescale * at_loc + 1e-9 * abs(want_sc * tq)
      bad = None
      if not util.close(est, want_est, rtol=rt, atol=atol):
        bad = ('estimate', est, want_est)
      elif not util.close(sc, want_sc, rtol=rts):
        bad = ('scale', sc, want_sc)
      elif not util.close(low, want_low, rtol=rts, atol=atol + rts * abs(want_sc * tq)):
        bad = ('lower', low, want_low)
      elif not (up == want_up or util.close(up, want_up, rtol=rts, atol=atol + rts * abs(want_sc * tq))):
        bad = ('upper', up, want_up)
      elif not util.close(float(row['level']), level, rtol=1e-15) or not util.close(float(row['posterior_threshold']), thr, rtol=1e-15):
        bad = ('level/threshold echo', (float(row['level']), float(row['posterior_threshold'])), (level, thr))
      else:
        p_want = float(1.0 - stats.t.cdf((thr - want_est) / want_sc, ref.df))
        p_tol = 1e-9 + abs(float(stats.t.pdf((thr - want_est) / want_sc, ref.df))) * (atol / want_sc + rts * abs(thr - want_est) / want_sc)
        if not abs(float(row['probability']) - p_want) <= p_tol:
          bad = ('probability', float(row['probability']), p_want)
      if bad:
        add('summary-' + bad[0].split('/')[0], 'summary-' + bad[0].split('/')[0].replace(' ', '-'),
            '%s row %d: %s=%r, closed form %r' % (label, k, bad[0], bad[1], bad[2]))
        break
      # relations between the columns of the row itself
      if not (low <= est <= up):
        if one_sided_low:
          add('ordering', 'one-sided-level-below-half', '%s: lower=%.9g > estimate=%.9g (lower is the (1-level) quantile, above the median when level < 0.5)' % (label, low, est))
        else:
          add('ordering', 'summary-ordering', '%s row %d: lower=%.12g estimate=%.12g upper=%.12g' % (label, k, low, est, up))
        break
      if not util.close(prec, est - low, rtol=1e-9, atol=1e-9 * abs(want_sc) + 1e-12 * abs(est) + 4e-16 * (abs(est) + abs(low))):
        add('precision', 'summary-precision', '%s row %d: precision=%.12g, estimate-lower=%.12g' % (label, k, prec, est - low))
        break

  # ---- design-side fit on the same data
  pmod = bootstrap.mm('tbrmmdesignparameters')
  dmod = bootstrap.mm('tbrmmdiagnostics')
  sig = r.choice([0.9, 0.8, 0.95, 0.6])
  par = pmod.TBRMMDesignParameters(n_test=len(x_an), iroas=1.0, sig_level=sig)
  # the caller hands over float64 work buffers and recycles them afterwards (e.g. np.sum(..., out=work) per candidate)
  wy = np.array(y_pre, dtype=float)
  wx = np.array(x_pre, dtype=float)
  recycle = r.random() < 0.5
  diag = dmod.TBRMMDiagnostics(wy, par)
  if recycle and r.random() < 0.5:
    wy[:] = wy[::-1] * 0.5 + 3.0
  if r.random() < 0.6:
    # the documented usage pattern re-uses one object across control series: fit a decoy control first
    decoy = x_pre[::-1] * r.choice([0.5, 2.0, 1.0]) + r.choice([0.0, 7.0])
    diag.x = decoy
    util.call(diag.tbrfit, float(np.mean(x_an)) + 1.0, float(np.mean(y_an)))
    counters['tbrfit_after_reuse'] += 1
  diag.x = wx
  if r.random() < 0.5:
    # the usual order of use: the diagnostic tests are read before the fit is asked for
    util.call(lambda: (diag.aatest, diag.tests_ok, diag.bbtest, diag.dwtest))
    counters['tbrfit_after_tests'] += 1
  if recycle:
    wx[:] = wx[::-1] * 3.0 + 1.0
    wy[:] = 0.0
    counters['tbrfit_after_buffer_recycle'] += 1
  tf = util.call(diag.tbrfit, float(np.mean(x_an)), float(np.mean(y_an)))
  counters['tbrfit_checked'] += 1
  if not tf.ok:
    add('tbrfit', 'tbrfit-raises:' + tf.exc_type, tf.describe())
  else:
    est, cihw, sigma, scale = (float(v) for v in tf.value)
    sm = model.summary(level=sig, tails=1)
    row = sm.iloc[-1]
    t_est, t_hw = float(row['estimate']), float(row['estimate']) - float(row['lower'])
    if not util.close(est, t_est, rtol=rt * 10, atol=at_loc * 10):
      add('tbrfit-estimate', 'tbrfit-vs-tbr-estimate', 'tbrfit estimate %.12g, TBR last-day estimate %.12g' % (est, t_est))
    elif not util.close(cihw, t_hw, rtol=max(rt * 100, 1e-7, rts), atol=at_loc * 10):
      add('tbrfit-halfwidth', 'tbrfit-vs-tbr-halfwidth', 'tbrfit half-width %.12g, TBR estimate-lower at level %.2f %.12g' % (cihw, sig, t_hw))
    r_est, r_hw, r_sigma, r_scale = tbrref.design_fit(x_pre, y_pre, float(np.mean(x_an)), float(np.mean(y_an)), len(x_an), sig)
    if not (util.close(est, r_est, rtol=rt * 10, atol=at_loc * 10) and util.close(scale, r_scale, rtol=max(rt * 100, 1e-8, rts))
            and util.close(sigma, r_sigma, rtol=max(rt * 100, 1e-8, rts))):
      add('tbrfit-closed-form', 'tbrfit-vs-closed-form', 'tbrfit %r vs independent closed form %r' % ((est, cihw, sigma, scale), (r_est, r_hw, r_sigma, r_scale)))
  if r.random() < 0.25 and exp['n_ctl'] + exp['n_trt'] >= 3:
    # one geo's period label lags by a day (its first test date is still labelled pre-period); whatever label the
    # date ends up with, it may not depend on which row of that date comes first
    st = before.copy()
    geos_ct = sorted(set(st.loc[st['group'].isin([1, 2]), 'geo']))
    lag = r.choice(geos_ct)
    first_test = [d for d, p_ in zip(exp['dates'], exp['periods']) if p_ == 1][0]
    st.loc[(st['geo'] == lag) & (st['date'] == first_test), 'period'] = 0
    key = (st['geo'] == lag).astype(int)
    fa = st.iloc[np.argsort(-key.to_numpy(), kind='stable')].reset_index(drop=True)      # lagging geo's rows first
    fb = st.iloc[np.argsort(key.to_numpy(), kind='stable')].reset_index(drop=True)       # ... last
    ma, mb = tbr.TBR(use_cooldown=use_cool), tbr.TBR(use_cooldown=use_cool)
    ra = util.call(lambda: (ma.fit(fa, 'response'), ma.causal_cumulative_distribution())[1])
    rb = util.call(lambda: (mb.fit(fb, 'response'), mb.causal_cumulative_distribution())[1])
    counters['lagging_label_pairs'] += 1
    if ra.ok != rb.ok:
      add('layout', 'layout-dependence:lagging-label', 'row order decides whether the fit succeeds: %s vs %s' % (ra.describe(), rb.describe()))
    elif ra.ok:
      la, lb = np.atleast_1d(ra.value.kwds['loc']), np.atleast_1d(rb.value.kwds['loc'])
      sa, sb = np.atleast_1d(ra.value.kwds['scale']), np.atleast_1d(rb.value.kwds['scale'])
      if la.shape != lb.shape or not np.allclose(la, lb, rtol=rt, atol=at_loc, equal_nan=True) or not np.allclose(sa, sb, rtol=rts, equal_nan=True):
        add('layout', 'layout-dependence:lagging-label',
            'with one geo whose period label lags by a day, the posterior depends on the row order (%d vs %d analysed days, first loc %r vs %r)' % (
                len(la), len(lb), la[:1], lb[:1]))
  if fit_frame is frame and r.random() < 0.4:
    # the caller corrects the SAME frame object in place (all responses restated) and fits the same model again
    resp_dtype = frame['response'].dtype
    frame['response'] = (frame['response'] * 3 + (7 if resp_dtype.kind in 'iu' else 7.5)).astype(resp_dtype)
    fit2 = util.call(model.fit, frame, 'response')
    counters['refit_same_frame_after_edit'] += 1
    if not fit2.ok:
      add('refit', 'tbr-refit-raises:' + fit2.exc_type, 'second fit of the edited frame raised %s' % fit2.describe())
    else:
      _, x_pre2, y_pre2 = totals(exp, frame, 'response', (0,))
      _, x_an2, y_an2 = totals(exp, frame, 'response', analysed)
      ref2 = tbrref.Ref(x_pre2, y_pre2, x_an2, y_an2)
      if not (ref2.zero_resid or ref2.degenerate):
        at_keep = at_loc
        at_loc = rt * float(np.abs(y_an2).sum() + np.abs(y_pre2).mean() * len(y_an2))
        check_posterior(model.causal_cumulative_distribution(), ref2, 'after in-place edit of the frame and re-fit', len(x_an2))
        at_loc = at_keep
  return {'nontrivial': True, 'fp': util.fp([desc, kind]), 'classes': ['n_pre=3' if exp['n_pre'] == 3 else 'n_pre>3', kind, exp['shape']],
          'counters': dict(counters), 'violations': violations[:6],
          'sample': dict(desc, variant=kind, last_day_loc=float(ref.loc[-1]), last_day_scale=float(ref.scale[-1]))}
