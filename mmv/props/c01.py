"""C01 — returned designs are legal assignments under the geo eligibility matrix.

Oracle: the generator's own eligibility rows and geo list (never GeoEligibility /
GeoAssignments), applied to every design returned by both real searches; an independent
model of the admitted set is compared with geos_within_constraints.
"""
import collections
import itertools

from mmv import gen
from mmv import probes
from mmv import searchlab as sl
from mmv import searchprops as sp
from mmv import util

PROP = 'C01'
LEVEL = 'exploration'
RULE = ('Generated panels (2-6 geos quick / 2-7 thorough for both searches, 8-20 / 8-30 geos greedy-only) with '
        'eligibility matrices mixing all seven legal rows (or none; table subset / superset of the data), any subset '
        'of the six constraints with data-calibrated ranges, n_geos_max, n_pretest_max, n_designs large in half the '
        'cases. Thorough also enumerates every multiset of row classes over <= 5 geos crossed with {none, '
        'n_geos_max, share, budget}. Every returned design of both searches is checked against the generator\'s own '
        'rows. Non-trivial: >= 2 distinct row classes among the admitted geos and >= 1 design returned; distinct by '
        'input description.')
ASSUMPTIONS = ['a search that raises is not judged here (C09 owns totality); such outcomes are counted',
               'admitted-set model is skipped when a share / budget / truncation comparison is within 1e-9 of flipping']
EXHAUSTIVE = {'quick': False, 'thorough': False}
MINIMA = {'quick': {'variant_unicode_ids': 20, 'variant_empty_table': 8, 'searches_after_query_result_edits': 60, 'shared_data_searches': 40, 'designs_checked': 300, 'admitted_checked': 150, 'distinct_nontrivial': 100, 'greedy_large': 7},
          'thorough': {'variant_unicode_ids': 200, 'variant_empty_table': 80, 'searches_after_query_result_edits': 600, 'shared_data_searches': 400, 'designs_checked': 5000, 'admitted_checked': 2000, 'distinct_nontrivial': 1350, 'greedy_large': 100}}
N = {'quick': 360, 'thorough': 3000}
N_LARGE = {'quick': 40, 'thorough': 240}
CASE_TIMEOUT = {'quick': 300, 'thorough': 900}
ENUM_G = 5
CONSTRAINT_KINDS = [None, 'ngeos', 'share', 'budget']


def enum_cases():
  out = []
  for G in range(2, ENUM_G + 1):
    for ms in itertools.combinations_with_replacement(gen.ASSIGNABLE_CLASSES + ['x_fixed'], G):
      out.append(ms)
  return out


def n_cases(tier):
  n = N[tier] + N_LARGE[tier]
  if tier == 'thorough':
    n += len(enum_cases())
  return n


def gen_case(tier, seed, idx):
  if idx < N[tier]:
    kind = 'random'
  elif idx < N[tier] + N_LARGE[tier]:
    kind = 'large'
  else:
    kind = 'enum'
  return {'tier': tier, 'seed': seed, 'idx': idx, 'kind': kind}


def prepare(tier):
  probes.install_heap()


def run_case(spec):
  r, g = util.rngs(PROP, spec['seed'], spec['idx'])
  tier = spec['tier']
  which_list = ('exhaustive', 'greedy')
  if spec['kind'] == 'large':
    G = r.randrange(8, 21 if tier == 'quick' else 31)
    case = sl.make_case(r, g, G, elig_mode=r.choice(['mixed', 'mostly_ctx', 'mostly_ctx']), n_dates=r.randrange(20, 50))
    which_list = ('greedy',)
  elif spec['kind'] == 'enum':
    ms = enum_cases()[spec['idx'] - N[tier] - N_LARGE[tier]]
    case = sl.make_case(r, g, len(ms), elig_mode='ctx', elig_extra='none',
                        focus=CONSTRAINT_KINDS[spec['idx'] % 4], allow=('ngeos', 'share', 'budget') if spec['idx'] % 4 else ())
    order = list(ms)
    r.shuffle(order)
    case['elig_rows'] = {str(gid): c for gid, c in zip(case['panel']['ids'], order)}
  else:
    G = r.randrange(2, 7 if tier == 'quick' else 8)
    focus = r.choice([None, None, 'ngeos', 'share', 'budget', 'size'])
    case = sl.make_case(r, g, G, elig_mode=r.choice(['mixed', 'mixed', 'hostile', 'mostly_ctx', 'none']), focus=focus,
                        id_style=('unicode' if spec['idx'] % 10 == 5 else None))
  variant = None
  if spec['kind'] == 'random' and spec['idx'] % 10 == 5:
    variant = 'unicode_ids'
  if spec['kind'] == 'random' and spec['idx'] % 20 == 6:
    # an eligibility table without any row: no geo has a row, so no geo may be used
    variant = 'empty_table'
    case['elig_rows'] = {}
    case['extra'] = {}
  if spec['kind'] == 'random' and case['elig_rows'] is not None and len(case['panel']['ids']) >= 3:
    ids_ = [str(i) for i in case['panel']['ids']]
    if spec['idx'] % 10 == 7:
      # one geo reports only NaN responses: it is not in the canonical table; if its row forbids exclusion the
      # input must be refused, otherwise it is simply not available
      variant = 'nan_geo'
      f = r.choice([gid for gid in ids_ if gid in case['elig_rows']] or ids_)
      if r.random() < 0.6:
        case['elig_rows'][f] = r.choice(['c_fixed', 't_fixed', 'ct'])
      fr = case['frame']
      fr.loc[fr['geo'].astype(str) == f, 'response'] = float('nan')
      case['nan_geos'] = [f]
    elif spec['idx'] % 10 == 8:
      # a geo that must be included has a perfectly flat response (zero single-geo impact) and n_geos_max binds
      variant = 'flat_must_include'
      k = r.randrange(len(ids_))
      f = ids_[k]
      case['elig_rows'][f] = r.choice(['c_fixed', 't_fixed', 'ct'])
      case['panel']['values'][k, :] = float(round(case['panel']['values'][k].mean()))
      case['panel']['present'][k, :] = True
      from mmv import gen as _gen  # pylint: disable=g-import-not-at-top
      case['frame'] = _gen.panel_frame(case['panel'], r, shuffle=True)
      n_must = sum(1 for c in case['elig_rows'].values() if c in ('c_fixed', 't_fixed', 'ct'))
      case['params']['n_geos_max'] = max(2, r.choice([n_must, n_must, n_must - 1, n_must + 1]))
      for k2 in ('budget_range', 'treatment_share_range'):
        case['params'].pop(k2, None)
  if r.random() < 0.5:
    case['params']['n_designs'] = 100000
  truth = sl.Truth(case)
  counters = collections.Counter()
  violations = []
  outcomes = []
  returned = 0
  admitted = None
  shared = spec['idx'] % 4 == 1      # A.search -> B.search (same data object) -> A.search, last call judged
  for which in which_list:
    rec = sl.run_search(case, which, interleave=(r if shared else None), edit_query_results=(spec['idx'] % 4 == 3))
    counters['searches_after_query_result_edits'] += bool(rec.get('query_edits'))
    counters['shared_data_searches'] += bool(rec.get('interleaved'))
    if not rec['outcome'].ok:
      outcomes.append(sp.search_failed(rec, which))
      counters['search_raised'] += 1
      continue
    if rec['designs'] is None:
      violations.append(sp.V('unreadable', which + ':unreadable-design', 'returned designs could not be read: %s' % rec['norm_error'].describe()))
      continue
    admitted = rec['admitted']
    ds = rec['designs']
    outcomes.append('%s:%d' % (which, len(ds)))
    returned += len(ds)
    counters['designs_checked'] += len(ds)
    counters['searches'] += 1
    if spec['kind'] == 'large' and ds:
      counters['greedy_large'] += 1
    violations += sp.c01_clauses(case, truth, rec, which)
    if which == which_list[0]:
      v, judged = sp.c01_admitted(case, truth, rec)
      violations += v
      counters['admitted_checked'] += judged
  classes_admitted = {truth.row[gid] for gid in (admitted or []) if gid in truth.row}
  nontrivial = returned > 0 and len(classes_admitted) >= 2
  desc = sl.describe(case, with_frame=False)
  if variant:
    counters['variant_' + variant] += 1
  return {'nontrivial': nontrivial, 'fp': util.fp(desc), 'classes': [spec['kind']] + ([variant] if variant else []), 'counters': dict(counters),
          'outcome': ' '.join(outcomes), 'violations': violations[:10],
          'sample': {'case': desc, 'outcomes': outcomes, 'admitted': sorted(admitted or [])},
          'case': sl.describe(case) if violations else None}
