"""C18 — pointwise and cumulative effect series are well-formed for any experiment.

Reference model: closed-form posterior (C06) for cumulative quantiles and the incremental
effect, numpy OLS for residuals and counterfactual; the container's inequality is
re-checked independently on what is returned. A raise is classified against the model:
the first-difference pointwise bounds cross the estimate exactly when the closed-form
cumulative scale decreases from one day to the next.
"""
import collections
import math

import numpy as np
from scipy import stats

from mmv import bootstrap
from mmv import gen
from mmv import tbrref
from mmv import util

PROP = 'C18'
LEVEL = 'exploration'
RULE = ('Generated experiment frames fitted with use_cooldown=True (n_pre 3..59, n_test 1..15, 0..7 cooldown days, 1-6 '
        'geos per group, control shapes iid / walk / swing, fixed and variable cost, optional unassigned geos; a separately '
        'tagged class has dates outside the three periods: a gap labelled -1 and dates after cooldown), both metrics, tails '
        '1/2, levels in (0,1). The report must succeed; on every date lower <= estimate <= upper in all three series; '
        'counterfactual + pointwise = observed treatment series; pre-period pointwise = OLS residuals; last cumulative '
        'estimate / bounds = incremental effect / posterior quantiles. Non-trivial: judged report; distinct by (scenario, '
        'metric, tails, shape, n_pre, n_test, n_cool, extras).')
ASSUMPTIONS = ['default column names (the function hard-codes cost / date / period)',
               'a ValueError from the series container is attributed to the known mechanism only if the closed-form cumulative '
               'scale decreases on some analysed day (then first-difference bounds must cross); tails=1 with level < 0.5 is the '
               'known-finding key one-sided-level-below-half']
EXHAUSTIVE = {'quick': False, 'thorough': False}
MINIMA = {'quick': {'degenerate_cost_reports': 10, 'refits': 120, 'reports_ok': 400, 'dates_checked': 10000, 'outside_period_cases': 80, 'distinct_nontrivial': 500},
          'thorough': {'degenerate_cost_reports': 250, 'refits': 2000, 'reports_ok': 7500, 'dates_checked': 150000, 'outside_period_cases': 1200, 'distinct_nontrivial': 8000}}
N = {'quick': 1000, 'thorough': 14000}


def n_cases(tier):
  return N[tier]


def gen_case(tier, seed, idx):
  return {'tier': tier, 'seed': seed, 'idx': idx}


def tot(exp, col, periods):
  dates = [d for d, p in zip(exp['dates'], exp['periods']) if p in periods]
  return dates, gen.group_totals(exp['frame'], col, 1, dates), gen.group_totals(exp['frame'], col, 2, dates)


def run_case(spec):
  r, g = util.rngs(PROP, spec['seed'], spec['idx'])
  mod = bootstrap.mm('tbr_iroas')
  scenario = r.choice(['fixed', 'variable', 'fixed', 'variable', 'treatment_pre_only', 'late_treatment_spend',
                       'control_pinned'])
  metric = r.choice(['tbr_response', 'tbr_response', 'tbr_cost'])
  extras = set()
  if r.random() < 0.2:
    extras.add('unassigned_geo')
  outside = spec['idx'] % 5 == 0
  if outside:
    extras.add(r.choice(['gap', 'after']))
    if r.random() < 0.3:
      extras |= {'gap', 'after'}
  date_style = {3: 'int0', 5: 'yyyymmdd', 6: 'iso', 8: 'int1', 10: 'date'}.get(spec['idx'] % 11)
  micros = spec['idx'] % 9 == 4           # metrics stored as int64 micro-units
  exp = gen.gen_experiment(r, g, extras=extras, cost_mode=scenario, date_style=date_style, int_dtype=(10 ** 6 if micros else None))
  frame = exp['frame']
  blank_date = None
  if spec['idx'] % 10 == 7 and not micros:
    # on one test / cooldown date nobody reported the metric (all values missing): the date is still an experiment
    # date and keeps its row in the report
    cands = [d for d, p_ in zip(exp['dates'], exp['periods']) if p_ in (1, 2)]
    if len(cands) >= 2:
      blank_date = r.choice(cands[1:])
      frame = frame.copy()
      for c_ in ('response', 'cost'):
        frame[c_] = frame[c_].astype(float)
        frame.loc[frame['date'] == blank_date, c_] = float('nan')
      exp = dict(exp, frame=frame)
  level = r.choice([0.9, 0.8, 0.95, 0.5, 0.99, round(r.uniform(0.05, 0.97), 3), 0.3])
  tails = r.choice([1, 2])
  counters = collections.Counter()
  violations = []
  desc = {k: exp[k] for k in ('n_pre', 'n_test', 'n_cool', 'n_ctl', 'n_trt', 'shape', 'extras', 'lift', 'int_dtype')}
  desc.update(blank_date=str(blank_date) if blank_date is not None else None, date_style=date_style, scenario=scenario, metric=metric, level=level, tails=tails)
  fpkey = [scenario, metric, tails, exp['shape'], exp['n_pre'], exp['n_test'], exp['n_cool'], sorted(extras), level]

  def add(clause, mech, detail):
    violations.append({'clause': clause, 'mech': mech, 'detail': '%s; case %r' % (detail, desc)})

  def done(nontrivial=True, sample=None):
    return {'nontrivial': nontrivial, 'fp': util.fp(fpkey),
            'classes': [scenario, metric, 'outside-periods' if outside else 'plain', exp['shape']],
            'counters': dict(counters), 'violations': violations[:6], 'sample': sample or dict(desc)}

  if outside:
    counters['outside_period_cases'] += 1
  model = mod.TBRiROAS(use_cooldown=True)
  if r.random() < 0.3:
    decoy = gen.gen_experiment(r, g, cost_mode=r.choice(['fixed', 'variable']), shape='iid')
    util.call(lambda: (model.fit(decoy['frame']), model.estimate_pointwise_and_cumulative_effect(metric, 0.9, 2)))
    counters['refits'] += 1
  fit = util.call(model.fit, frame)
  if not fit.ok:
    add('fit', 'iroas-fit-raises:' + fit.exc_type, fit.describe())
    return done()
  col = 'response' if metric == 'tbr_response' else 'cost'
  d_pre, x_pre, y_pre = tot(exp, col, (0,))
  d_an, x_an, y_an = tot(exp, col, (1, 2))
  fixed_cost_branch = scenario == 'fixed' and metric == 'tbr_cost'
  degenerate_cost = scenario == 'treatment_pre_only' and metric == 'tbr_cost'   # control never spends
  ref = None
  if not fixed_cost_branch and not degenerate_cost:
    ref = tbrref.Ref(x_pre, y_pre, x_an, y_an)
  out = util.call(model.estimate_pointwise_and_cumulative_effect, metric, level, tails)
  counters['reports'] += 1
  tail_p = (1 - level) / tails
  if not out.ok:
    msg = str(out.exc)
    mech = 'report-raises:%s' % out.exc_type
    if tails == 1 and level <= 0.5 and out.exc_type == 'ValueError' and 'bound is not' in msg:
      mech = 'one-sided-level-below-half'
    elif out.exc_type == 'ValueError' and 'bound is not' in msg and degenerate_cost:
      counters['degenerate_cost_raised'] += 1
      return done(False)
    elif ref is not None and (ref.zero_resid or ref.degenerate):
      counters['zero_variance_inputs'] += 1
      return done(False)
    elif out.exc_type == 'ValueError' and 'bound is not' in msg and ref is not None:
      sc = ref.scale
      drops = [k for k in range(1, len(sc)) if sc[k] < sc[k - 1] * (1 - 1e-12)]
      if drops:
        mech = 'pointwise-bounds-cross-when-cumulative-scale-decreases'
        counters['scale_decrease_cases'] += 1
      else:
        mech = 'report-raises:bounds-cross-without-scale-decrease'
    elif outside and out.exc_type == 'ValueError':
      mech = 'report-raises-with-dates-outside-periods'
    add('report-raises', mech, 'estimate_pointwise_and_cumulative_effect(%r, level=%r, tails=%d) raised %s' % (metric, level, tails, out.describe()))
    return done()
  counters['reports_ok'] += 1
  ts = out.value
  cf, pw, cum = ts.counterfactual, ts.pointwise_difference, ts.cumulative_effect
  all_dates = d_pre + d_an
  _, _, y_all = tot(exp, col, (0, 1, 2))
  # structure and independent re-check of the container inequality
  for name, df_, want_dates in (('counterfactual', cf, all_dates), ('pointwise_difference', pw, all_dates),
                                ('cumulative_effect', cum, d_an)):
    counters['dates_checked'] += len(df_)
    if [str(d) for d in df_['date']] != [str(d) for d in want_dates]:
      add('dates', 'series-dates:' + name, '%s has %d dates (first %s), wanted the %d dates of the %s periods' % (
          name, len(df_), list(df_['date'])[:1], len(want_dates), 'pre+test+cooldown' if want_dates is all_dates else 'test+cooldown'))
      return done()
    lo, es, up = (np.asarray(df_[k], dtype=float) for k in ('lower', 'estimate', 'upper'))
    if np.any(np.isnan(lo)) or np.any(np.isnan(es)) or np.any(np.isnan(up)):
      if float(np.ptp(y_pre)) == 0.0 or (ref is not None and ref.sigma2 == 0.0):
        # zero residual variance in the pre-period (e.g. constant integer costs): the posterior scale is 0 and its
        # quantiles are undefined; outside the non-degenerate inputs the statement is about
        counters['zero_variance_inputs'] += 1
        return done(False)
      add('nan', 'series-nan:' + name, '%s contains NaN' % name)
      return done()
    if np.any(lo > es) or np.any(es > up):
      k = int(np.argmax((lo > es) | (es > up)))
      add('ordering', 'series-ordering:' + name, '%s on %s: lower=%.12g estimate=%.12g upper=%.12g' % (name, want_dates[k], lo[k], es[k], up[k]))
  if violations:
    return done()
  n_pre = len(d_pre)
  vol = float(np.abs(y_all).sum())
  if fixed_cost_branch:
    if np.any(np.asarray(cf['estimate'], dtype=float) != 0):
      add('fixed-counterfactual', 'fixed-cost-counterfactual-nonzero', 'fixed-cost counterfactual cost is not 0')
    if not np.allclose(np.asarray(pw['estimate'], dtype=float), y_all, rtol=1e-12, atol=1e-12 * vol):
      add('fixed-pointwise', 'fixed-cost-pointwise', 'fixed-cost pointwise difference differs from the observed treatment cost')
    if not np.allclose(np.asarray(cum['estimate'], dtype=float), np.cumsum(y_an), rtol=1e-12, atol=1e-12 * vol):
      add('fixed-cumulative', 'fixed-cost-cumulative', 'fixed-cost cumulative effect differs from the cumulated treatment cost')
    return done()
  if degenerate_cost:
    # the cost regression has a constant (zero) regressor: fitted pre-period values are the pre-period mean, so
    # the pointwise differences there are y - mean(y); counterfactual + pointwise must still give the observed
    # series. Scale / df of a rank-deficient fit are not modelled, cumulative bounds are not judged.
    counters['degenerate_cost_reports'] += 1
    pwe = np.asarray(pw['estimate'], dtype=float)
    want = y_pre - y_pre.mean()
    if not np.allclose(pwe[:n_pre], want, rtol=1e-8, atol=1e-8 * float(np.abs(y_pre).max())):
      k = int(np.argmax(np.abs(pwe[:n_pre] - want)))
      add('residuals', 'pre-period-residuals', 'control never spends: pre-period pointwise cost difference on %s = %.10g, regression residual %.10g' % (d_pre[k], pwe[k], want[k]))
    s_ = np.asarray(cf['estimate'], dtype=float) + pwe
    if not np.allclose(s_, y_all, rtol=1e-10, atol=1e-10 * max(1.0, float(np.abs(y_all).max()))):
      add('sum', 'counterfactual-plus-pointwise', 'counterfactual + pointwise differs from the observed treatment cost')
    return done()
  if ref.zero_resid or ref.degenerate:
    counters['zero_variance_inputs'] += 1
    return done(False)
  kappa = 1.0 + (ref.xbar / max(float(np.std(x_pre)), 1e-300)) ** 2
  rt = 1e-9 + 2e-15 * kappa
  at = rt * (vol + float(np.abs(y_pre).mean()) * len(y_an))
  # counterfactual + pointwise = observed treatment series
  s = np.asarray(cf['estimate'], dtype=float) + np.asarray(pw['estimate'], dtype=float)
  if not np.allclose(s, y_all, rtol=1e-10, atol=1e-10 * max(1.0, float(np.abs(y_all).max()))):
    k = int(np.argmax(np.abs(s - y_all)))
    add('sum', 'counterfactual-plus-pointwise', 'on %s counterfactual + pointwise = %.12g, observed treatment %s = %.12g' % (all_dates[k], s[k], col, y_all[k]))
  # pre-period pointwise differences are the regression residuals; bounds coincide with them
  pwe = np.asarray(pw['estimate'], dtype=float)
  if not np.allclose(pwe[:n_pre], ref.resid, rtol=rt, atol=at):
    k = int(np.argmax(np.abs(pwe[:n_pre] - ref.resid)))
    add('residuals', 'pre-period-residuals', 'pre-period pointwise difference on %s = %.12g, OLS residual %.12g' % (d_pre[k], pwe[k], ref.resid[k]))
  if not np.allclose(pwe[n_pre:], ref.effect, rtol=rt, atol=at):
    k = int(np.argmax(np.abs(pwe[n_pre:] - ref.effect)))
    add('pointwise', 'pointwise-effect', 'pointwise difference on %s = %.12g, closed form %.12g' % (d_an[k], pwe[n_pre + k], ref.effect[k]))
  # cumulative: last date and every date
  tq = float(stats.t.ppf(tail_p, ref.df))
  ce = np.asarray(cum['estimate'], dtype=float)
  cl = np.asarray(cum['lower'], dtype=float)
  cu = np.asarray(cum['upper'], dtype=float)
  rt_sigma = 200 * 2.2e-16 * float(np.abs(y_pre).max()) / ref.sigma      # near-perfect fits: see C06
  btol = max(rt * 10, rt_sigma) * np.abs(ref.scale * tq) + at
  if not np.allclose(ce, ref.loc, rtol=rt, atol=at):
    k = int(np.argmax(np.abs(ce - ref.loc)))
    mech = 'cumulative-estimate-last' if k == len(ce) - 1 else 'cumulative-estimate'
    add('cumulative-estimate', mech, 'cumulative estimate on %s = %.12g, incremental effect %.12g' % (d_an[k], ce[k], ref.loc[k]))
  elif np.any(np.abs(cl - (ref.loc + ref.scale * tq)) > btol) or np.any(np.abs(cu - (ref.loc - ref.scale * tq)) > btol):
    k = int(np.argmax(np.maximum(np.abs(cl - (ref.loc + ref.scale * tq)), np.abs(cu - (ref.loc - ref.scale * tq)))))
    add('cumulative-bounds', 'cumulative-bounds', 'cumulative bounds on %s = [%.12g, %.12g], posterior quantiles at %.4g: [%.12g, %.12g]' % (
        d_an[k], cl[k], cu[k], tail_p, ref.loc[k] + ref.scale[k] * tq, ref.loc[k] - ref.scale[k] * tq))
  return done(sample=dict(desc, n_dates=len(all_dates), last_cumulative=[float(cl[-1]), float(ce[-1]), float(cu[-1])]))
