"""C12 — search results are invariant to how the input is presented.

Metamorphic run-pair monitor: the same search is run on the original input and on a
transformed copy (row shuffle; all dates shifted; int <-> str IDs; bijective renaming of
geos applied to frame and eligibility matrix; responses x 2^k with the budget range x 2^k)
and the two normalised results are compared up to the renaming / scaling.
"""
import collections
import datetime

import numpy as np
import pandas as pd

from mmv import gen
from mmv import probes
from mmv import searchlab as sl
from mmv import util

PROP = 'C12'
LEVEL = 'exploration'
TRANSFORMS = ['shuffle', 'date_shift', 'id_type', 'rename', 'scale', 'all']
RULE = ('Each case draws an input (2-6 geos for the exhaustive search, 2-12 quick / 2-20 thorough for greedy; every '
        'constraint type present in some pairs), one transformation of {%s} and one search. rename maps the geos to '
        'names whose alphabetical order reverses the size order (and integer-like IDs such as 2, 10, 1); scale uses '
        '2^k, k in -3..12, and scales the budget range alike. Results must agree position by position: same groups '
        '(after un-renaming), equal discrete score entries and correlations, impact-based entries scaled. When the '
        'two score sequences agree but groups differ on a panel with exactly tied series the pair is counted as '
        'tie-ambiguous. Non-trivial: >= 1 design returned; distinct by (input, transformation, search).' % ', '.join(TRANSFORMS))
ASSUMPTIONS = ['scale factors are powers of two, so the transformed input is exact in floating point',
               'float comparisons use 1e-10 relative tolerance (summation order inside pandas may differ after a renaming)']
EXHAUSTIVE = {'quick': False, 'thorough': False}
HASH_SEEDS = {'quick': [0], 'thorough': [0, 1, 2]}
MINIMA = {'quick': {'twin_geos_int_vs_str_ids': 12, 'text_label_dates': 10, 'share_bound_on_library_value': 15, 'impact_tie_cases': 8, 'pairs_with_restated_rows': 30, 'pairs_compared': 300, 'designs_compared': 400, 'distinct_nontrivial': 150, 'set:transforms': 6},
          'thorough': {'twin_geos_int_vs_str_ids': 150, 'text_label_dates': 150, 'share_bound_on_library_value': 200, 'impact_tie_cases': 100, 'pairs_with_restated_rows': 400, 'pairs_compared': 4000, 'designs_compared': 6000, 'distinct_nontrivial': 1800, 'set:transforms': 6}}
N = {'quick': 420, 'thorough': 5000}
CASE_TIMEOUT = {'quick': 300, 'thorough': 900}


def n_cases(tier):
  return N[tier]


def gen_case(tier, seed, idx):
  return {'tier': tier, 'seed': seed, 'idx': idx}


def prepare(tier):
  probes.install_heap()


def transform(case, r, kind):
  """Returns (transformed case, id map new->old, scale factor)."""
  panel = dict(case['panel'])
  kw = dict(case['params'])
  rows = case['elig_rows']
  ids = list(panel['ids'])
  idmap = {str(i): str(i) for i in ids}
  c = 1.0
  kinds = ['shuffle', 'date_shift', 'id_type', 'rename', 'scale'] if kind == 'all' else [kind]
  new_ids = list(ids)
  if 'id_type' in kinds:
    if all(isinstance(i, int) for i in ids):
      new_ids = [str(i) for i in ids]
    elif all(isinstance(i, str) and i.isdigit() for i in ids):
      new_ids = [int(i) for i in ids]
  if 'rename' in kinds:
    vals = panel['values']
    order = sorted(range(len(ids)), key=lambda i: -float((vals[i] * panel['present'][i]).mean()))
    style = r.choice(['alpha_reverse', 'intlike', 'whitespace'])
    names = {}
    if style == 'whitespace':
      for rank, i in enumerate(order):
        names[i] = [' g%02d', 'g%02d ', ' g%02d ', 'g %02d'][rank % 4] % (len(ids) - rank)   # IDs are arbitrary strings
    elif style == 'alpha_reverse':
      for rank, i in enumerate(order):
        names[i] = 'g%02d' % (len(ids) - rank)      # largest geo gets the last name
    else:
      pool = [2, 10, 1, 100, 21, 3, 33, 4, 40, 5, 55, 6, 61, 7, 70, 8, 81, 9, 90, 11, 12, 13, 14, 15, 16]
      pool = r.sample(pool, len(ids)) if len(ids) <= len(pool) else list(range(1, len(ids) + 1))
      for rank, i in enumerate(order):
        names[i] = pool[rank]
    new_ids = [names[i] for i in range(len(ids))]
  idmap = {str(n): str(o) for n, o in zip(new_ids, ids)}
  fwd = {str(o): str(n) for n, o in zip(new_ids, ids)}
  panel['ids'] = new_ids
  if 'date_shift' in kinds:
    shift = r.choice([-4000, -365, -1, 1, 7, 30, 366, 5000])
    days = [d + datetime.timedelta(days=shift) for d in panel['days']]
    panel['days'] = days
    if isinstance(panel['dates'][0], str):
      panel['dates'] = [d.isoformat() for d in days]
    elif getattr(panel['dates'][0], 'tzinfo', None) is not None or any(ts.hour for ts in panel['dates']):
      # tz-aware stamps / stamps with a time of day: shift every stamp by the same absolute duration
      # (may cross a DST change; may be a fraction of a day) - the time points stay distinct and ordered
      delta = pd.Timedelta(days=shift) + pd.Timedelta(hours=r.choice([0, 6, 13]))
      panel['dates'] = [ts + delta for ts in panel['dates']]
    else:
      panel['dates'] = [pd.Timestamp(d) for d in days]
  if 'scale' in kinds:
    k = r.choice([r.randrange(-3, 13), r.randrange(14, 32), r.randrange(16, 32), r.randrange(-30, -10), r.randrange(-75, -50),
                  r.randrange(-75, -55), r.randrange(-75, -60), r.choice([255, 260, 270, -255, -260, -270])])
    c = 2.0 ** k
    panel['values'] = panel['values'] * c
    if panel.get('dups'):
      panel['dups'] = [(i, k2, v * c) for i, k2, v in panel['dups']]
    if kw.get('budget_range') is not None:
      kw['budget_range'] = (kw['budget_range'][0] * c, kw['budget_range'][1] * c)
  new_rows = None
  if rows is not None:
    new_rows = {fwd.get(gid, gid): cls for gid, cls in rows.items()}
  out = dict(case, panel=panel, params=kw, elig_rows=new_rows)
  out['frame'] = gen.panel_frame(panel, r, shuffle=('shuffle' in kinds) or kind != 'id_type' and r.random() < 0.3)
  if 'shuffle' not in kinds and kind not in ('all',):
    # keep the original row order for the pure transformations: rebuild in the original order
    out['frame'] = gen.panel_frame(panel, None, shuffle=False)
  out['elig_seed'] = case['elig_seed'] + (1 if 'shuffle' in kinds else 0)
  return out, idmap, c


def run_case(spec):
  r, g = util.rngs(PROP, spec['seed'], spec['idx'])
  tier = spec['tier']
  kind = TRANSFORMS[spec['idx'] % len(TRANSFORMS)]
  which = 'exhaustive' if (spec['idx'] // len(TRANSFORMS)) % 2 == 0 else 'greedy'
  if which == 'exhaustive':
    G = r.randrange(2, 7)
  else:
    G = r.randrange(2, 13 if tier == 'quick' else 21)
  id_style = r.choice(['int', 'intmix', 'numstr']) if kind in ('id_type', 'all') else None
  cls = 'duplicates' if spec['idx'] % 17 == 0 else None
  twin_ids = kind == 'id_type' and spec['idx'] % 12 == 8 and G >= 3
  if twin_ids:
    # two geos with identical series, integer IDs whose numeric and text orders differ, enough designs kept to see
    # the order: the int and the str presentation of the same IDs must give the same result
    cls, id_style = 'duplicates', 'intmix'
  if kind in ('date_shift', 'all') and r.random() < 0.4:
    dstyle = r.choice(['tz', 'timeofday'])
  elif kind == 'shuffle' and r.random() < 0.35:
    dstyle = 'dmy'          # day/month/year text labels
  else:
    dstyle = None
  case = sl.make_case(r, g, G, id_style=id_style, cls=cls, elig_extra='none', date_style=dstyle,
                      focus=[None, 'budget', 'share', 'ngeos', 'volume', 'budget'][(spec['idx'] // 12) % 6])
  if kind in ('shuffle', 'all') and r.random() < 0.5:
    # restated rows: some (geo, date) cells occur twice with different values (the canonical table averages them)
    pn = case['panel']
    dups = []
    for _ in range(r.randrange(1, 10)):
      i, k = r.randrange(len(pn['ids'])), r.randrange(len(pn['dates']))
      if pn['present'][i, k]:
        dups.append((i, k, float(pn['values'][i, k]) * r.choice([0.5, 0.9, 1.1, 1.5])))
    pn['dups'] = dups
    case['frame'] = gen.panel_frame(pn, r, shuffle=True)
  if twin_ids:
    case['params']['n_designs'] = r.choice([3, 5, 50])
    for k2 in ('budget_range', 'treatment_share_range'):
      case['params'].pop(k2, None)
  unit_scaled = any(f.startswith('unit=') for f in case['panel']['features'])
  if kind == 'rename' and spec['idx'] % 5 in (0, 1, 2) and G >= 4 and not unit_scaled:
    # two geos with EXACTLY equal single-geo required impact but different volume (one is the other mirrored in
    # time plus a constant, integer-valued so the arithmetic is exact), and n_geos_max cutting between them
    pn = case['panel']
    pn['values'] = np.round(pn['values'])
    a, b = r.sample(range(G), 2)
    pn['values'][b] = pn['values'][a][::-1] + float(r.choice([-7, 13, 40]))
    pn['present'][:] = True
    case['elig_rows'] = None
    kw = case['params']
    for k2 in ('budget_range', 'treatment_share_range', 'n_pretest_max'):
      kw.pop(k2, None)
    kw['n_test'] = min(kw['n_test'], len(pn['dates']) - 4)
    imp = sl.Truth(case).admitted_model()[1]['impact']
    ids_ = [str(i) for i in pn['ids']]
    order_ = sorted(ids_, key=lambda gid: -imp[gid])
    pos = min(order_.index(ids_[a]), order_.index(ids_[b]))
    kw['n_geos_max'] = max(2, pos + 1)
    counters_extra = {'impact_tie_cases': 1}
  elif kind in ('rename', 'all') and spec['idx'] % 5 in (3, 4) and G >= 4 and cls is None:
    # the upper share bound sits EXACTLY (bit for bit) on a share as the library computes it for this presentation:
    # that of one geo (decides geos_too_large in both searches) or of the best unconstrained treatment group
    counters_extra = {}
    kw = case['params']
    kw.pop('treatment_share_range', None)
    b0 = util.call(sl.build, case, None, None, True)
    if b0.ok:
      data0, _, mm0 = b0.value
      hi = None
      if which == 'exhaustive' and r.random() < 0.5:
        res0 = util.call(mm0.exhaustive_search)
        if res0.ok and res0.value:
          d0 = res0.value[0]
          gi0 = list(data0.geo_index)
          idx0 = {gi0.index(gid) for gid in d0.treatment_geos}
          hi = float(data0.aggregate_geo_share(idx0))
      if hi is None:
        shares0 = [float(v) for v in data0.geo_share]
        hi = r.choice(sorted(shares0)[len(shares0) // 2:])
      if 0 < hi < 1:
        kw['treatment_share_range'] = (1e-9, hi)
        counters_extra = {'share_bound_on_library_value': 1}
  else:
    counters_extra = {}
  if kind not in ('shuffle', 'all'):
    case['frame'] = gen.panel_frame(case['panel'], None, shuffle=False)
  tcase, idmap, c = transform(case, r, kind)
  desc = sl.describe(case, with_frame=False)
  counters = collections.Counter(counters_extra)
  counters['text_label_dates'] += dstyle == 'dmy'
  counters['twin_geos_int_vs_str_ids'] += bool(twin_ids)
  violations = []
  a = sl.run_search(case, which)
  b = sl.run_search(tcase, which)
  tag = '%s/%s' % (kind, which)
  if not a['outcome'].ok or not b['outcome'].ok or a['designs'] is None or b['designs'] is None:
    oa, ob = a['outcome'], b['outcome']
    if oa.ok != ob.ok or (not oa.ok and oa.exc_type != ob.exc_type):
      violations.append({'clause': 'outcome', 'mech': 'invariance:%s:outcome' % kind,
                         'detail': '[%s] original: %s; transformed: %s' % (tag, oa.describe(), ob.describe())})
    return {'nontrivial': False, 'fp': util.fp([desc, kind, which]), 'classes': ['raised'],
            'counters': {'search_raised': 1}, 'sets': {'transforms': [kind]}, 'violations': violations,
            'sample': None, 'outcome': tag + ':raised', 'case': sl.describe(case) if violations else None}
  da, db = a['designs'], b['designs']
  if any(sl.has_nan(d['score']) for d in da + db):
    # constant / all-zero series give NaN scores and exactly tied means: a degenerate input, not judged
    return {'nontrivial': False, 'fp': util.fp([desc, kind, which]), 'classes': ['nan-scores'],
            'counters': {'nan_score_pairs': 1}, 'sets': {'transforms': [kind]}, 'violations': [], 'sample': None,
            'outcome': tag + ':nan'}
  counters['pairs_compared'] += 1
  counters['pairs_with_restated_rows'] += bool(case['panel'].get('dups'))
  budget_scoring = which == 'exhaustive' and case['params'].get('budget_range') is not None
  tied_panel = case['panel']['cls'] in ('duplicates', 'integer')
  if len(da) != len(db):
    violations.append({'clause': 'length', 'mech': 'invariance:%s:length' % kind,
                       'detail': '[%s] %d designs for the original input, %d for the transformed one' % (tag, len(da), len(db))})
  else:
    scores_equal = True
    groups_equal = True
    first_diff = None
    for pos, (x, y) in enumerate(zip(da, db)):
      counters['designs_compared'] += 1
      yt = sorted(idmap.get(i, i) for i in y['t'])
      yc = sorted(idmap.get(i, i) for i in y['c'])
      if (x['t'], x['c']) != (yt, yc):
        groups_equal = False
        first_diff = first_diff or 'position %d: groups T=%s C=%s vs T=%s C=%s (un-renamed)' % (pos, x['t'], x['c'], yt, yc)
      sx, sy = x['score'], y['score']
      last_scale = 1.0 if budget_scoring else 1.0 / c
      ok = (sx[:4] == sy[:4] and util.close(sx[4], sy[4], rtol=0, atol=1e-12)
            and util.close(sx[5] * last_scale, sy[5], rtol=1e-10))
      if x.get('corr') is not None and y.get('corr') is not None:
        ok = ok and util.close(x['corr'], y['corr'], rtol=1e-10, atol=1e-13)
        ok = ok and util.close(x['impact'] * c, y['impact'], rtol=1e-10)
        ok = ok and tuple(map(bool, x['tests'])) == tuple(map(bool, y['tests']))
      if not ok:
        scores_equal = False
        first_diff = first_diff or 'position %d: score %r (corr %r, impact %r) vs %r (corr %r, impact %r), scale %g' % (
            pos, sx, x.get('corr'), x.get('impact'), sy, y.get('corr'), y.get('impact'), c)
    if not scores_equal:
      if tied_panel and kind in ('rename', 'all') and not groups_equal:
        # exactly tied (twin) geos are ordered by name; after a renaming the greedy path may pick the other twin, and
        # when the twins' eligibility rows differ the paths - and the final scores - legitimately diverge
        counters['tie_ambiguous'] += 1
      else:
        violations.append({'clause': 'scores', 'mech': 'invariance:%s:scores' % kind, 'detail': '[%s] %s' % (tag, first_diff)})
    elif not groups_equal:
      if tied_panel and kind in ('rename', 'all'):
        # exactly tied geos are ordered by name: only a renaming may legitimately swap them
        counters['tie_ambiguous'] += 1
      else:
        violations.append({'clause': 'groups', 'mech': 'invariance:%s:groups' % kind, 'detail': '[%s] %s' % (tag, first_diff)})
  return {'nontrivial': len(da) >= 1, 'fp': util.fp([desc, kind, which]), 'classes': [kind, which],
          'counters': dict(counters), 'sets': {'transforms': [kind]}, 'violations': violations,
          'outcome': '%s:%d' % (tag, min(len(da), 2)),
          'sample': {'case': desc, 'transformation': kind, 'search': which, 'scale': c,
                     'renaming': {k: v for k, v in idmap.items() if k != v}, 'designs': len(da)},
          'case': sl.describe(case) if violations else None}
