"""C11 — count_max_designs equals the size of the enumerated design space.

Three-way comparison on the real object: count_max_designs()  vs  the (treatment, control)
pairs listed by the real generators over treatment_group_size_range()  vs  an independent
itertools.product enumeration of control / treatment / neither assignments with an exact
rational geo-ratio test. Plus: the exhaustive search never pushes more designs than the count.
"""
import collections
import itertools

from mmv import bootstrap
from mmv import gen
from mmv import probes
from mmv import searchlab as sl
from mmv import util

PROP = 'C11'
LEVEL = 'exploration'
RULE = ('Enumerated: every multiset of the seven legal eligibility row classes over 1..3 geos (quick) / '
        '1..4 (thorough), crossed with 9 size settings (none; (1,1),(1,2),(2,3),(3,9) for either group) x '
        '5 geo-ratio tolerances (None, 0.01, 0.5, 1.0, 2.0); random class vectors on 4-6 (quick) / 5-8 '
        '(thorough) geos with random settings incl. both size ranges; class vectors on 3-6 geos with n_geos_max / share / '
        'budget constraints that drop assignable geos before the design space is formed; class vectors on 20-45 geos where '
        'count_max_designs() is compared with an exact generating-function count (no listing possible). For each (multiset, setting): '
        'count_max_designs() vs the oracle enumeration; for every third setting also the full generator '
        'listing (distinct pairs, no duplicates). Non-trivial: oracle count > 0 and >= 2 row classes '
        'present; distinct by (class multiset, setting).')
ASSUMPTIONS = ['in the enumerated part the admitted set equals the assignable geos; the "dropped" cases add n_geos_max / share / budget constraints and count over the observed geos_within_constraints',
               'geo-ratio bound evaluated in exact rational arithmetic of the float tolerance']
EXHAUSTIVE = {'quick': True, 'thorough': True}
MINIMA = {'quick': {'listings_interleaved_with_sibling': 100, 'settings': 4000, 'listings': 1200, 'search_bound_checks': 15, 'settings_with_dropped_geos': 100, 'large_settings': 100, 'distinct_nontrivial': 1500},
          'thorough': {'listings_interleaved_with_sibling': 700, 'settings': 19000, 'listings': 6000, 'search_bound_checks': 100, 'settings_with_dropped_geos': 700, 'large_settings': 1000, 'distinct_nontrivial': 8000}}
MAXG = {'quick': 3, 'thorough': 4}
N_RANDOM = {'quick': 96, 'thorough': 640}
N_SEARCH = {'quick': 32, 'thorough': 160}
N_DROPPED = {'quick': 96, 'thorough': 640}
N_LARGE = {'quick': 48, 'thorough': 400}
CLASSES = ['c_fixed', 't_fixed', 'x_fixed', 'ct', 'cx', 'tx', 'ctx']
SIZES = [None, (1, 1), (1, 2), (2, 3), (3, 9)]
SIZE_SETTINGS = [(None, None)] + [(s, None) for s in SIZES[1:]] + [(None, s) for s in SIZES[1:]]
TOLS = [None, 0.01, 0.5, 1.0, 2.0]


def all_multisets(maxg):
  out = []
  for G in range(1, maxg + 1):
    out.extend(itertools.combinations_with_replacement(CLASSES, G))
  return out


def n_cases(tier):
  return len(all_multisets(MAXG[tier])) + N_RANDOM[tier] + N_SEARCH[tier] + N_DROPPED[tier] + N_LARGE[tier]


def gen_case(tier, seed, idx):
  ms = all_multisets(MAXG[tier])
  if idx < len(ms):
    return {'tier': tier, 'seed': seed, 'idx': idx, 'kind': 'enum', 'classes': list(ms[idx])}
  if idx < len(ms) + N_RANDOM[tier]:
    return {'tier': tier, 'seed': seed, 'idx': idx, 'kind': 'random'}
  if idx < len(ms) + N_RANDOM[tier] + N_SEARCH[tier]:
    return {'tier': tier, 'seed': seed, 'idx': idx, 'kind': 'search'}
  if idx < len(ms) + N_RANDOM[tier] + N_SEARCH[tier] + N_DROPPED[tier]:
    return {'tier': tier, 'seed': seed, 'idx': idx, 'kind': 'dropped'}
  return {'tier': tier, 'seed': seed, 'idx': idx, 'kind': 'large'}


def prepare(tier):
  probes.install_heap()


def make_case(r, g, classes):
  G = len(classes)
  panel = gen.gen_panel(r, g, G, 12, cls='continuous', id_style=r.choice(['str', 'intmix']))
  order = list(classes)
  r.shuffle(order)
  rows = {str(gid): c for gid, c in zip(panel['ids'], order)}
  case = {'panel': panel, 'elig_rows': rows, 'params': {'n_test': 3, 'iroas': 1.0},
          'frame': gen.panel_frame(panel, r), 'extra': {}, 'elig_index_keyed': r.random() < 0.3,
          'elig_seed': r.randrange(1 << 30)}
  return case


def listing(mm, sibling=None):
  pairs = []
  handed_out = []
  for n in mm.treatment_group_size_range():
    for T in mm.treatment_group_generator(n):
      Tc = set(T)
      handed_out.append(T)
      if sibling is not None:
        # the caller works with two search objects on one data object in turn: the other one is queried in between
        util.call(lambda: (sibling.geo_assignments, sibling.count_max_designs()))
      for C in mm.control_group_generator(set(Tc)):
        pairs.append((frozenset(Tc), frozenset(C)))
        handed_out.append(C)
  # once the enumeration is over, a caller may do what it likes with the sets it was handed
  for s_ in handed_out:
    s_.clear()
  return pairs


def check_setting(case, truth, tr, cr, tol, do_listing, counters, violations, fps, extra_kw=None, with_sibling=False):
  kw = {'n_test': 3, 'iroas': 1.0}
  kw.update(extra_kw or {})
  if tr is not None:
    kw['treatment_geos_range'] = tr
  if cr is not None:
    kw['control_geos_range'] = cr
  if tol is not None:
    kw['geo_ratio_tolerance'] = tol
  built = util.call(sl.build, case, None, kw)
  label = 'classes=%s setting=%r' % (sorted(case['elig_rows'].values()), kw)
  if not built.ok:
    if built.exc_type != 'ValueError':
      violations.append({'clause': 'build', 'mech': 'count-build:' + built.exc_type, 'detail': '%s: %s' % (label, built.describe())})
    counters['build_rejected'] += 1
    return
  data, par, mm = built.value
  admitted = {gid for gid, c in truth.row.items() if c != 'x_fixed'}
  if extra_kw:
    # geo-level constraints drop geos before the design space is formed: count over the admitted geos only
    obs = util.call(lambda: set(mm.geos_within_constraints))
    if not obs.ok:
      counters['build_rejected'] += 1
      return
    if obs.value != admitted:
      counters['settings_with_dropped_geos'] += 1
    admitted = obs.value
  pairs, amb = sl.enumerate_assignments(truth, admitted, kw)
  counters['settings'] += 1
  if amb:
    counters['ambiguous_settings'] += 1
    return
  want = len(pairs)
  cnt = util.call(mm.count_max_designs)
  if not cnt.ok:
    mech = 'count-raises:' + cnt.exc_type
    if not admitted:
      mech = 'count-empty-admitted:' + cnt.exc_type
    violations.append({'clause': 'count-raises', 'mech': mech, 'detail': '%s: %s' % (label, cnt.describe())})
    return
  if int(cnt.value) != want:
    violations.append({'clause': 'count-vs-oracle', 'mech': 'count-mismatch',
                       'detail': '%s: count_max_designs()=%r, enumeration of assignments=%d' % (label, cnt.value, want)})
  if do_listing:
    sibling = None
    if with_sibling:
      smod, pmod = bootstrap.mm('tbrmatchedmarkets'), bootstrap.mm('tbrmmdesignparameters')
      kw_sib = {k: v for k, v in kw.items() if k not in (extra_kw or {})}
      sb = util.call(lambda: smod.TBRMatchedMarkets(data, pmod.TBRMMDesignParameters(**kw_sib)))
      sibling = sb.value if sb.ok else None
      counters['listings_interleaved_with_sibling'] += sibling is not None
    lst = util.call(listing, mm, sibling)
    counters['listings'] += 1
    if not lst.ok:
      mech = 'listing-raises:' + lst.exc_type
      if not admitted:
        mech = 'listing-empty-admitted:' + lst.exc_type
      violations.append({'clause': 'listing-raises', 'mech': mech, 'detail': '%s: %s' % (label, lst.describe())})
    else:
      L = lst.value
      counters['pairs_listed'] += len(L)
      if len(set(L)) != len(L):
        violations.append({'clause': 'listing-duplicates', 'mech': 'listing-duplicates',
                           'detail': '%s: generators list %d pairs, %d distinct' % (label, len(L), len(set(L)))})
      gi = list(data.geo_index)
      ids = {(tuple(sorted(gi[i] for i in T)), tuple(sorted(gi[i] for i in C))) for T, C in set(L)}
      wantset = {(tuple(sorted(T)), tuple(sorted(C))) for T, C in pairs}
      if ids != wantset:
        extra, missing = sorted(ids - wantset)[:2], sorted(wantset - ids)[:2]
        violations.append({'clause': 'listing-vs-oracle', 'mech': 'listing-mismatch',
                           'detail': '%s: generators list %d distinct pairs, oracle %d; extra %s missing %s' % (
                               label, len(ids), len(wantset), extra, missing)})
      again = util.call(mm.count_max_designs)
      if again.ok and int(again.value) != int(cnt.value):
        violations.append({'clause': 'count-after-listing', 'mech': 'count-changes-after-listing',
                           'detail': '%s: count_max_designs()=%r before and %r after the groups were listed (and the yielded sets cleared by the caller)' % (
                               label, cnt.value, again.value)})
      if len(set(L)) != int(cnt.value):
        violations.append({'clause': 'count-vs-listing', 'mech': 'count-vs-listing',
                           'detail': '%s: count=%r, listed distinct pairs=%d' % (label, cnt.value, len(set(L)))})
  if want > 0 and len(set(case['elig_rows'].values())) >= 2:
    fps.add(util.fp([sorted(case['elig_rows'].values()), kw]))


def run_enum(spec, r, g):
  classes = spec['classes']
  case = make_case(r, g, classes)
  truth = sl.Truth(case)
  counters = collections.Counter()
  violations, fps = [], set()
  j = 0
  for tr, cr in SIZE_SETTINGS:
    for tol in TOLS:
      check_setting(case, truth, tr, cr, tol, (j + spec['idx']) % 3 == 0, counters, violations, fps)
      j += 1
      if len(violations) > 12:
        break
  return {'nontrivial': False, 'nontrivial_fps': sorted(fps), 'fp': 'ms-' + '-'.join(classes),
          'classes': ['enum-%d' % len(classes)], 'counters': dict(counters), 'violations': violations[:12],
          'sample': {'kind': 'enumerated multiset', 'classes': classes, 'settings': len(SIZE_SETTINGS) * len(TOLS)},
          'case': sl.describe(case) if violations else None}


def run_random(spec, r, g):
  lo, hi = (4, 6) if spec['tier'] == 'quick' else (5, 8)
  G = r.randrange(lo, hi + 1)
  weights = [('ctx', 5), ('cx', 2), ('tx', 2), ('ct', 2), ('c_fixed', 1), ('t_fixed', 1), ('x_fixed', 1)]
  classes = [gen.weighted(r, weights) for _ in range(G)]
  case = make_case(r, g, classes)
  truth = sl.Truth(case)
  counters = collections.Counter()
  violations, fps = [], set()
  for j in range(6):
    def rng_size():
      if r.random() < 0.4:
        return None
      lo_ = r.randrange(1, G)
      return (lo_, lo_ + r.randrange(0, G))
    tr, cr = rng_size(), rng_size()
    tol = r.choice(TOLS + [1.0 / 3, 3.0, 0.25, 0.999, 1.001])
    check_setting(case, truth, tr, cr, tol, j % 3 == 0 and G <= 6, counters, violations, fps)
  return {'nontrivial': False, 'nontrivial_fps': sorted(fps), 'fp': 'rand-%d' % spec['idx'],
          'classes': ['random-%d' % G], 'counters': dict(counters), 'violations': violations[:12],
          'sample': {'kind': 'random class vector', 'classes': classes},
          'case': sl.describe(case) if violations else None}


def run_dropped(spec, r, g):
  """Random class vectors with n_geos_max / share / budget constraints that drop assignable geos."""
  G = r.randrange(3, 7)
  weights = [('ctx', 6), ('cx', 2), ('tx', 2), ('ct', 1), ('c_fixed', 1), ('t_fixed', 1), ('x_fixed', 1)]
  classes = [gen.weighted(r, weights) for _ in range(G)]
  case = make_case(r, g, classes)
  truth = sl.Truth(case)
  counters = collections.Counter()
  violations, fps = [], set()
  vals = case['panel']['values']
  shares = vals.mean(axis=1) / vals.mean(axis=1).sum()
  for j in range(5):
    extra = {}
    u = r.random()
    if u < 0.45:
      extra['n_geos_max'] = r.randrange(2, G + 1)
    elif u < 0.8:
      cut = sorted(shares)[r.randrange(0, G)]
      hi = min(0.999, float(cut) * r.choice([0.999, 1.001]))
      if hi > 1e-6:
        extra['treatment_share_range'] = (1e-7, hi)
    else:
      imp = sorted(truth.admitted_model()[1]['impact'].values())
      extra['budget_range'] = (0.0, float(imp[r.randrange(0, len(imp))]) * r.choice([0.999, 1.001]))
    tr = None if r.random() < 0.5 else (1, r.randrange(1, G))
    tol = r.choice(TOLS)
    check_setting(case, truth, tr, None, tol, j % 2 == 0, counters, violations, fps, extra_kw=extra, with_sibling=(j % 4 == 0))
  return {'nontrivial': False, 'nontrivial_fps': sorted(fps), 'fp': 'dropped-%d' % spec['idx'],
          'classes': ['dropped-%d' % G], 'counters': dict(counters), 'violations': violations[:12],
          'sample': {'kind': 'class vector with geo-level constraints', 'classes': classes},
          'case': sl.describe(case) if violations else None}


def gf_count(truth, admitted, kw):
  """Exact count by multiplying generating functions over (|T|, |C|): c_fixed -> c, t_fixed -> t,
  cx -> 1 + c, tx -> 1 + t, ct -> c + t, ctx -> 1 + c + t; then summing the admissible (|T|, |C|) cells.
  Independent of the code's nested binomial loops; exact integers; works for any number of geos."""
  from fractions import Fraction
  poly = {(0, 0): 1}
  step = {'c_fixed': [(0, 1)], 't_fixed': [(1, 0)], 'cx': [(0, 0), (0, 1)], 'tx': [(0, 0), (1, 0)],
          'ct': [(0, 1), (1, 0)], 'ctx': [(0, 0), (0, 1), (1, 0)]}
  for gid in admitted:
    nxt = collections.defaultdict(int)
    for (a, b), v in poly.items():
      for da, db in step[truth.row[gid]]:
        nxt[(a + da, b + db)] += v
    poly = nxt
  tr, cr, gt = kw.get('treatment_geos_range'), kw.get('control_geos_range'), kw.get('geo_ratio_tolerance')
  total = 0
  for (a, b), v in poly.items():
    if a < 1 or b < 1:
      continue
    if tr is not None and not tr[0] <= a <= tr[1]:
      continue
    if cr is not None and not cr[0] <= b <= cr[1]:
      continue
    if gt is not None:
      lo, hi = sl.ratio_bounds(gt)
      ratio = Fraction(b, a)
      if not lo <= ratio <= hi:
        if min(abs(float(ratio - lo)), abs(float(ratio - hi))) < 1e-12:
          return None
        continue
    total += v
  return total


def run_large(spec, r, g):
  """20-45 geos: too many designs to list; count_max_designs() vs the exact generating-function count."""
  G = r.randrange(20, 46)
  if spec['idx'] % 4 == 0:
    G = r.choice([10, 11, 12, 15, 20, 22, 24, 30, 33, 36, 44])     # sizes where n*(1+tol)/(2+tol) is (nearly) integral
  weights = r.choice([[('ctx', 10), ('cx', 1), ('tx', 1)], [('ctx', 3), ('cx', 3), ('tx', 2), ('ct', 1), ('c_fixed', 1), ('t_fixed', 1)],
                      [('cx', 8), ('ctx', 2), ('tx', 1)], [('ctx', 1)]])
  if spec['idx'] % 4 == 0:
    weights = [('ctx', 1)]
  classes = [gen.weighted(r, weights) for _ in range(G)]
  case = make_case(r, g, classes)
  truth = sl.Truth(case)
  counters = collections.Counter()
  violations, fps = [], set()
  admitted = {gid for gid, c in truth.row.items() if c != 'x_fixed'}
  for j in range(4):
    kw = {'n_test': 3, 'iroas': 1.0}
    if r.random() < 0.5:
      lo_ = r.randrange(1, G // 2)
      kw['treatment_geos_range'] = (lo_, lo_ + r.randrange(0, G))
    if r.random() < 0.4:
      lo_ = r.randrange(1, G // 2)
      kw['control_geos_range'] = (lo_, lo_ + r.randrange(0, G))
    if r.random() < 0.5:
      kw['geo_ratio_tolerance'] = r.choice([0.5, 1.0, 2.0, 0.1, 0.25, 0.2, 0.4, 0.2, 0.4])
    if spec['idx'] % 4 == 0 and j == 0:
      kw = {'n_test': 3, 'iroas': 1.0, 'geo_ratio_tolerance': r.choice([0.2, 0.4, 0.5, 1.0])}
    built = util.call(sl.build, case, None, kw)
    if not built.ok:
      counters['build_rejected'] += 1
      continue
    want = gf_count(truth, admitted, kw)
    if want is None:
      continue
    cnt = util.call(built.value[2].count_max_designs)
    counters['large_settings'] += 1
    label = '%d geos, classes %s, setting %r' % (G, dict(collections.Counter(classes)), kw)
    if not cnt.ok:
      violations.append({'clause': 'count-raises', 'mech': 'count-raises:' + cnt.exc_type, 'detail': '%s: %s' % (label, cnt.describe())})
    elif int(cnt.value) != want:
      violations.append({'clause': 'count-vs-exact', 'mech': 'count-mismatch-large',
                         'detail': '%s: count_max_designs()=%d, exact generating-function count=%d' % (label, int(cnt.value), want)})
    if want > 0:
      fps.add(util.fp([sorted(classes), kw]))
  return {'nontrivial': False, 'nontrivial_fps': sorted(fps), 'fp': 'large-%d' % spec['idx'], 'classes': ['large-%d' % (G // 10 * 10)],
          'counters': dict(counters), 'violations': violations[:8],
          'sample': {'kind': 'large class vector', 'n_geos': G, 'classes': dict(collections.Counter(classes))},
          'case': None}


def run_search(spec, r, g):
  G = r.randrange(2, 6)
  case = sl.make_case(r, g, G, allow=('size', 'ratio', 'volume', 'share', 'budget'), elig_extra='none')
  counters = collections.Counter()
  violations = []
  rec = sl.run_search(case, 'exhaustive')
  nontrivial = False
  if rec['outcome'].ok:
    pushes = len(rec['events'].get('heap_push', []))
    fresh = util.call(sl.build, case)
    if fresh.ok:
      cnt = util.call(fresh.value[2].count_max_designs)
      if cnt.ok:
        counters['search_bound_checks'] += 1
        nontrivial = pushes > 0
        if pushes > int(cnt.value):
          violations.append({'clause': 'upper-bound', 'mech': 'count-not-upper-bound',
                             'detail': 'exhaustive_search pushed %d designs but count_max_designs()=%r' % (pushes, cnt.value)})
  return {'nontrivial': nontrivial, 'fp': util.fp(sl.describe(case, False)), 'classes': ['search'],
          'counters': dict(counters), 'violations': violations, 'sample': None,
          'case': sl.describe(case) if violations else None}


def run_case(spec):
  r, g = util.rngs(PROP, spec['seed'], spec['idx'])
  if spec['kind'] == 'enum':
    return run_enum(spec, r, g)
  if spec['kind'] == 'random':
    return run_random(spec, r, g)
  if spec['kind'] == 'dropped':
    return run_dropped(spec, r, g)
  if spec['kind'] == 'large':
    return run_large(spec, r, g)
  return run_search(spec, r, g)
