"""C02 — returned designs satisfy every user-specified numeric constraint.

Oracle: all constrained quantities recomputed from the raw input frame (own pivot, exact
rational arithmetic for sizes and geo ratio, independent closed-form required impact).
"""
import collections

from mmv import probes
from mmv import searchlab as sl
from mmv import searchprops as sp
from mmv import util

PROP = 'C02'
LEVEL = 'exploration'
RULE = ('Generated panels (2-6 geos quick / 2-7 thorough, plus 8-20 geos greedy-only) with every subset of the six '
        'constraints; share and budget ranges are placed at quantiles of the data (below / around / above the '
        'attainable interval), size ranges and geo-ratio tolerances include values exactly on attainable ratios '
        '(1.0, 0.5, 2.0, 1/3). Each returned design of both searches is re-evaluated from the raw frame: |T|, |C|, '
        '|C|/|T| (exact rational, inclusive), share(C)/share(T), treatment share (either documented reading), '
        'required budget (independent closed form / iROAS). A further class places a bound 1e-7..3e-6 (relative) inside the measured value of a design returned by an '
        'unconstrained run and searches again; another places a share range strictly between the two documented readings '
        'of a legal treatment group (needs a non-assignable geo and a geo cut by the upper share bound). Non-trivial: a design was returned and >= 1 specified '
        'constraint is binding (the unconstrained design space over the admitted geos holds both satisfying and '
        'violating candidates); distinct by input description.')
ASSUMPTIONS = ['real-valued bounds: a violation needs to exceed the bound by > 1e-9 relative',
               'an unspecified constraint is never read by the oracle']
EXHAUSTIVE = {'quick': False, 'thorough': False}
MINIMA = {'quick': {'collinear_cases': 10, 'high_level_panels': 20, 'share_gap_cases': 8, 'near_bound_cases': 50, 'designs_checked': 300, 'distinct_nontrivial': 80, 'on_bound_designs': 20, 'greedy_with_budget': 15},
          'thorough': {'collinear_cases': 100, 'high_level_panels': 250, 'share_gap_cases': 80, 'near_bound_cases': 500, 'designs_checked': 5000, 'distinct_nontrivial': 1000, 'on_bound_designs': 300, 'greedy_with_budget': 200}}
N = {'quick': 384, 'thorough': 3600}
N_LARGE = {'quick': 16, 'thorough': 120}
N_NEAR = {'quick': 96, 'thorough': 900}
N_GAP = {'quick': 48, 'thorough': 400}
N_COL = {'quick': 24, 'thorough': 200}
CASE_TIMEOUT = {'quick': 300, 'thorough': 900}


def n_cases(tier):
  return N[tier] + N_LARGE[tier] + N_NEAR[tier] + N_GAP[tier] + N_COL[tier]


def gen_case(tier, seed, idx):
  kind = 'random' if idx < N[tier] else ('large' if idx < N[tier] + N_LARGE[tier] else
                                          'near' if idx < N[tier] + N_LARGE[tier] + N_NEAR[tier] else
                                          'gap' if idx < N[tier] + N_LARGE[tier] + N_NEAR[tier] + N_GAP[tier] else 'collinear')
  return {'tier': tier, 'seed': seed, 'idx': idx, 'kind': kind}


def prepare(tier):
  probes.install_heap()


def run_near_bound(spec, r, g):
  """Two-phase case: search without the constraint, measure one returned design from the raw frame, then place
  the bound a few parts per million INSIDE that value and search again on fresh objects: that design (and any other
  beyond the bound) must be gone. Random bounds never land this close to an attainable value."""
  G = r.randrange(3, 7)
  case = sl.make_case(r, g, G, allow=('size',), elig_mode=r.choice(['none', 'mostly_ctx', 'ctx']), elig_extra='none')
  case['params']['n_designs'] = 100000
  truth = sl.Truth(case)
  which = r.choice(['exhaustive', 'greedy', 'greedy'])
  counters = collections.Counter()
  violations = []
  desc = sl.describe(case, with_frame=False)
  first = sl.run_search(case, which)
  if not first['outcome'].ok or not first['designs']:
    return {'nontrivial': False, 'fp': util.fp(desc), 'classes': ['near-bound-empty'], 'counters': {'near_bound_empty': 1},
            'violations': [], 'sample': None}
  nd = r.choice(first['designs'])
  kind = r.choice(['budget_hi', 'budget_lo', 'volume', 'share_hi', 'share_lo', 'geo_ratio'])
  eps = r.choice([3e-6, 1e-6, 1e-7])
  kw = dict(case['params'])
  T, C = nd['t'], nd['c']
  if kind.startswith('budget'):
    b = truth.req_impact(T, C) / truth.iroas
    kw['budget_range'] = (0.0, b * (1 - eps)) if kind == 'budget_hi' else (b * (1 + eps), b * 1e6)
  elif kind == 'volume':
    v = truth.share_of(C) / truth.share_of(T)
    big = max(v, 1 / v)
    if big * (1 - eps) - 1.0 <= 0:
      return {'nontrivial': False, 'fp': util.fp(desc), 'classes': ['near-bound-skip'], 'counters': {}, 'violations': [], 'sample': None}
    kw['volume_ratio_tolerance'] = big * (1 - eps) - 1.0
  elif kind.startswith('share'):
    sT = truth.share_of(T) / (truth.share_of(first['admitted']) if which == 'greedy' else 1.0)
    kw['treatment_share_range'] = (1e-9, min(0.999999, sT * (1 - eps))) if kind == 'share_hi' else (sT * (1 + eps), 0.9999999)
    if not kw['treatment_share_range'][0] < kw['treatment_share_range'][1]:
      return {'nontrivial': False, 'fp': util.fp(desc), 'classes': ['near-bound-skip'], 'counters': {}, 'violations': [], 'sample': None}
  else:
    ratio = max(len(C) / len(T), len(T) / len(C))
    if ratio * (1 - eps) - 1.0 <= 0:
      return {'nontrivial': False, 'fp': util.fp(desc), 'classes': ['near-bound-skip'], 'counters': {}, 'violations': [], 'sample': None}
    kw['geo_ratio_tolerance'] = ratio * (1 - eps) - 1.0
  case2 = dict(case, params=kw)
  truth2 = sl.Truth(case2)
  second = sl.run_search(case2, which)
  counters['near_bound_cases'] += 1
  counters['near_bound_' + kind] += 1
  if second['outcome'].ok and second['designs'] is not None:
    v, _ = sp.c02_clauses(case2, truth2, second, which)
    for x in v:
      x['detail'] = '[bound placed %g inside the value of a previously returned design] %s' % (eps, x['detail'])
    violations += v
    counters['designs_checked'] += len(second['designs'])
  d2 = sl.describe(case2, with_frame=False)
  return {'nontrivial': True, 'fp': util.fp([d2, kind]), 'classes': ['near-bound', kind], 'counters': dict(counters),
          'violations': violations[:6], 'sample': {'case': d2, 'kind': kind, 'eps': eps, 'design': [T, C]},
          'case': sl.describe(case2) if violations else None}


def run_share_gap(spec, r, g):
  """Share range placed BETWEEN the two documented readings of a legal treatment group: some geo cannot take part
  (must be excluded / absent from the table), the largest excludable geo is cut by the upper share bound, and the
  range (lo, hi) satisfies  s < lo <= s/A <= hi < s/D  for a legal treatment group with share s, A the share of the
  assignable geos and D that of the admitted ones. Under either documented reading (vs all geos, vs admitted geos)
  that group is out of range; a denominator that is neither would let it through."""
  G = r.randrange(4, 8)
  case = sl.make_case(r, g, G, allow=('size',), elig_mode=r.choice(['none', 'mostly_ctx', 'ctx', 'mixed']), elig_extra='none')
  ids = [str(i) for i in case['panel']['ids']]
  rows = dict(case['elig_rows']) if case['elig_rows'] is not None else {gid: 'ctx' for gid in ids}
  how = r.choice(['x_fixed', 'absent', 'both'])
  victims = r.sample(ids, 2 if how == 'both' else 1)
  if how in ('x_fixed', 'both'):
    rows[victims[0]] = 'x_fixed'
  if how in ('absent', 'both'):
    rows.pop(victims[-1], None)
  case['elig_rows'] = rows
  kw0 = {k: v for k, v in case['params'].items() if k not in ('treatment_geos_range', 'control_geos_range', 'geo_ratio_tolerance',
                                                              'volume_ratio_tolerance', 'budget_range', 'n_geos_max',
                                                              'treatment_share_range')}
  kw0['n_designs'] = 100000
  case['params'] = kw0
  case['preset_geo_index'] = False
  truth = sl.Truth(case)
  desc = sl.describe(case, with_frame=False)
  skip = {'nontrivial': False, 'fp': util.fp(desc), 'classes': ['share-gap-skip'], 'counters': {'share_gap_skipped': 1},
          'violations': [], 'sample': None}
  which = r.choice(['exhaustive', 'exhaustive', 'greedy'])
  first = sl.run_search(case, 'exhaustive')
  if not first['outcome'].ok or not first['designs']:
    return skip
  assignable = sorted(gid for gid, c in truth.row.items() if c != 'x_fixed')
  A = truth.share_of(assignable)
  excludable = [gid for gid in assignable if gen_rows_excludable(truth.row[gid])]
  if not excludable or A >= 1 - 1e-6:
    return skip
  big = max(excludable, key=lambda gid: truth.share[gid])
  rest = [gid for gid in assignable if gid != big]
  D = truth.share_of(rest)
  floor = max([truth.share[gid] for gid in rest if gen_rows_excludable(truth.row[gid])] or [0.0])
  cands = []
  seen = set()
  for nd in first['designs']:
    T = tuple(sorted(nd['t']))
    if T in seen or big in T or len(T) >= len(rest):
      continue
    seen.add(T)
    s = truth.share_of(T)
    lo_hi, hi_hi = max(s / A, floor * (1 + 1e-6)), min(s / D, truth.share[big])
    if hi_hi > lo_hi * (1 + 1e-4) and s / A > s * (1 + 1e-4):
      cands.append((T, s, lo_hi, hi_hi))
  if not cands:
    return skip
  T, s, lo_hi, hi_hi = r.choice(cands)
  u = r.choice([0.5, 0.1, 0.9])
  hi = lo_hi + u * (hi_hi - lo_hi)
  lo = s + r.choice([0.5, 0.1, 0.9]) * (s / A - s)
  if not (lo < hi < 1):
    return skip
  kw = dict(kw0, treatment_share_range=(lo, hi))
  case2 = dict(case, params=kw)
  truth2 = sl.Truth(case2)
  second = sl.run_search(case2, which)
  counters = collections.Counter(share_gap_cases=1)
  violations = []
  if second['outcome'].ok and second['designs'] is not None:
    v, _ = sp.c02_clauses(case2, truth2, second, which)
    for x in v:
      x['detail'] = '[share range placed between the two documented readings of T=%s] %s' % (list(T), x['detail'])
    violations += v
    counters['designs_checked'] += len(second['designs'])
    counters['share_gap_designs'] += len(second['designs'])
  d2 = sl.describe(case2, with_frame=False)
  return {'nontrivial': True, 'fp': util.fp([d2, 'gap']), 'classes': ['share-gap', how, which], 'counters': dict(counters),
          'violations': violations[:6], 'sample': {'case': d2, 'T': list(T), 'share': s, 'A': A, 'D': D},
          'case': sl.describe(case2) if violations else None}


def run_collinear(spec, r, g):
  """A control-only geo follows a treatment-only geo almost perfectly (correlation 1 - 5e-11 .. 1 - 5e-12, not 1): the
  pair needs very little budget; the LOWER budget bound is put at twice that budget, so the pair must not be returned."""
  import numpy as np
  from mmv import gen
  G = r.randrange(3, 6)
  case = sl.make_case(r, g, G, cls='continuous', allow=('size',), elig_mode='ctx', elig_extra='none', n_dates=r.randrange(15, 60))
  pn = case['panel']
  desc0 = sl.describe(case, with_frame=False)
  skip = {'nontrivial': False, 'fp': util.fp(desc0), 'classes': ['collinear-skip'], 'counters': {'collinear_skipped': 1},
          'violations': [], 'sample': None}
  if any(f.startswith('unit=') for f in pn['features']):
    return skip
  a, b = r.sample(range(G), 2)
  delta = r.choice([1e-5, 3e-6])
  va = pn['values'][a]
  pn['values'][b] = r.choice([0.5, 1.0, 2.0]) * va + float(np.std(va)) * delta * g.standard_normal(len(va))
  pn['present'][:] = True
  pn['dups'] = None
  pn['features'] = list(pn['features']) + ['collinear:%d,%d' % (a, b)]
  ids = [str(i) for i in pn['ids']]
  case['elig_rows'] = {gid: ('tx' if k == a else 'cx' if k == b else 'ctx') for k, gid in enumerate(ids)}
  case['frame'] = gen.panel_frame(pn, r, shuffle=True)
  kw = {k: v for k, v in case['params'].items() if k not in ('treatment_geos_range', 'control_geos_range', 'geo_ratio_tolerance',
                                                             'volume_ratio_tolerance', 'budget_range', 'n_geos_max',
                                                             'treatment_share_range')}
  kw['n_designs'] = 100000
  case['params'] = kw
  case['prior_long_window'] = False
  truth = sl.Truth(case)
  if truth.iroas <= 0:
    return skip
  x_, y_ = truth.series([ids[b]]), truth.series([ids[a]])
  c_ = float(np.corrcoef(x_, y_)[0, 1])
  if not (1 - 1e-9 < c_ < 1.0):
    return skip
  B = truth.req_impact([ids[a]], [ids[b]]) / truth.iroas
  kw['budget_range'] = (2.0 * B, 1e9 * B)
  truth = sl.Truth(case)
  counters = collections.Counter(collinear_cases=1)
  violations = []
  desc = sl.describe(case, with_frame=False)
  for which in ('exhaustive', 'greedy'):
    rec = sl.run_search(case, which)
    if rec['outcome'].ok and rec['designs'] is not None:
      v, _ = sp.c02_clauses(case, truth, rec, which)
      for x in v:
        x['detail'] = '[lower budget bound at twice the budget of a nearly collinear pair] ' + x['detail']
      violations += v
      counters['designs_checked'] += len(rec['designs'])
  return {'nontrivial': True, 'fp': util.fp([desc, 'collinear']), 'classes': ['collinear'], 'counters': dict(counters),
          'violations': violations[:6], 'sample': {'case': desc, 'corr': c_, 'pair_budget': B},
          'case': sl.describe(case) if violations else None}


def gen_rows_excludable(cls):
  from mmv import gen  # pylint: disable=g-import-not-at-top
  return gen.ROWS[cls][2] == 1


def run_case(spec):
  r, g = util.rngs(PROP, spec['seed'], spec['idx'])
  tier = spec['tier']
  if spec['kind'] == 'near':
    return run_near_bound(spec, r, g)
  if spec['kind'] == 'gap':
    return run_share_gap(spec, r, g)
  if spec['kind'] == 'collinear':
    return run_collinear(spec, r, g)
  which_list = ('exhaustive', 'greedy')
  focus = ['budget', 'share', 'ratio', 'volume', 'size', 'budget', None][spec['idx'] % 7]
  if spec['kind'] == 'large':
    G = r.randrange(8, 21)
    case = sl.make_case(r, g, G, elig_mode='mostly_ctx', n_dates=r.randrange(20, 50), focus=focus)
    which_list = ('greedy',)
  else:
    G = r.randrange(2, 7 if tier == 'quick' else 8)
    hl = spec['idx'] % 10 == 9
    case = sl.make_case(r, g, G, focus=('budget' if hl else focus), elig_mode=r.choice(['none', 'mostly_ctx', 'mixed', 'ctx']),
                        cls=('high_level' if hl else None))
  if r.random() < 0.5:
    case['params']['n_designs'] = 100000
  truth = sl.Truth(case)
  counters = collections.Counter()
  counters['high_level_panels'] += case['panel']['cls'] == 'high_level'
  violations = []
  outcomes = []
  returned = 0
  admitted = None
  for which in which_list:
    rec = sl.run_search(case, which)
    if not rec['outcome'].ok or rec['designs'] is None:
      outcomes.append(sp.search_failed(rec, which) if not rec['outcome'].ok else which + ':unreadable')
      counters['search_raised'] += 1
      continue
    admitted = rec['admitted']
    ds = rec['designs']
    outcomes.append('%s:%d' % (which, len(ds)))
    returned += len(ds)
    counters['designs_checked'] += len(ds)
    counters['searches'] += 1
    v, edge = sp.c02_clauses(case, truth, rec, which)
    violations += v
    counters['on_edge_real_valued'] += edge
    counters['on_bound_designs'] += sp.on_bound_counts(truth, ds)
    if which == 'greedy' and case['params'].get('budget_range') is not None and ds:
      counters['greedy_with_budget'] += 1
  binding = []
  if returned and admitted and len(admitted) <= 7:
    binding = sp.binding_constraints(truth, admitted)
  for b in binding:
    counters['binding_' + b] += 1
  desc = sl.describe(case, with_frame=False)
  return {'nontrivial': bool(returned and binding), 'fp': util.fp(desc), 'classes': [spec['kind'], 'focus:%s' % focus],
          'counters': dict(counters), 'outcome': ' '.join(outcomes), 'violations': violations[:10],
          'sample': {'case': desc, 'outcomes': outcomes, 'binding_constraints': binding},
          'case': sl.describe(case) if violations else None}
