"""C02 — returned designs satisfy every user-specified numeric constraint.

Oracle: all constrained quantities recomputed from the raw input frame (own pivot, exact
rational arithmetic for sizes and geo ratio, independent closed-form required impact).
"""
import collections

from mmv import probes
from mmv import searchlab as sl
from mmv import searchprops as sp
from mmv import util

PROP = 'C02'
LEVEL = 'exploration'
RULE = ('Generated panels (2-6 geos quick / 2-7 thorough, plus 8-20 geos greedy-only) with every subset of the six '
        'constraints; share and budget ranges are placed at quantiles of the data (below / around / above the '
        'attainable interval), size ranges and geo-ratio tolerances include values exactly on attainable ratios '
        '(1.0, 0.5, 2.0, 1/3). Each returned design of both searches is re-evaluated from the raw frame: |T|, |C|, '
        '|C|/|T| (exact rational, inclusive), share(C)/share(T), treatment share (either documented reading), '
        'required budget (independent closed form / iROAS). Non-trivial: a design was returned and >= 1 specified '
        'constraint is binding (the unconstrained design space over the admitted geos holds both satisfying and '
        'violating candidates); distinct by input description.')
ASSUMPTIONS = ['real-valued bounds: a violation needs to exceed the bound by > 1e-9 relative',
               'an unspecified constraint is never read by the oracle']
EXHAUSTIVE = {'quick': False, 'thorough': False}
MINIMA = {'quick': {'designs_checked': 300, 'distinct_nontrivial': 80, 'on_bound_designs': 20, 'greedy_with_budget': 15},
          'thorough': {'designs_checked': 5000, 'distinct_nontrivial': 1000, 'on_bound_designs': 300, 'greedy_with_budget': 200}}
N = {'quick': 384, 'thorough': 3600}
N_LARGE = {'quick': 16, 'thorough': 120}
CASE_TIMEOUT = {'quick': 300, 'thorough': 900}


def n_cases(tier):
  return N[tier] + N_LARGE[tier]


def gen_case(tier, seed, idx):
  return {'tier': tier, 'seed': seed, 'idx': idx, 'kind': 'random' if idx < N[tier] else 'large'}


def prepare(tier):
  probes.install_heap()


def run_case(spec):
  r, g = util.rngs(PROP, spec['seed'], spec['idx'])
  tier = spec['tier']
  which_list = ('exhaustive', 'greedy')
  focus = ['budget', 'share', 'ratio', 'volume', 'size', 'budget', None][spec['idx'] % 7]
  if spec['kind'] == 'large':
    G = r.randrange(8, 21)
    case = sl.make_case(r, g, G, elig_mode='mostly_ctx', n_dates=r.randrange(20, 50), focus=focus)
    which_list = ('greedy',)
  else:
    G = r.randrange(2, 7 if tier == 'quick' else 8)
    case = sl.make_case(r, g, G, focus=focus, elig_mode=r.choice(['none', 'mostly_ctx', 'mixed', 'ctx']))
  if r.random() < 0.5:
    case['params']['n_designs'] = 100000
  truth = sl.Truth(case)
  counters = collections.Counter()
  violations = []
  outcomes = []
  returned = 0
  admitted = None
  for which in which_list:
    rec = sl.run_search(case, which)
    if not rec['outcome'].ok or rec['designs'] is None:
      outcomes.append(sp.search_failed(rec, which) if not rec['outcome'].ok else which + ':unreadable')
      counters['search_raised'] += 1
      continue
    admitted = rec['admitted']
    ds = rec['designs']
    outcomes.append('%s:%d' % (which, len(ds)))
    returned += len(ds)
    counters['designs_checked'] += len(ds)
    counters['searches'] += 1
    v, edge = sp.c02_clauses(case, truth, rec, which)
    violations += v
    counters['on_edge_real_valued'] += edge
    counters['on_bound_designs'] += sp.on_bound_counts(truth, ds)
    if which == 'greedy' and case['params'].get('budget_range') is not None and ds:
      counters['greedy_with_budget'] += 1
  binding = []
  if returned and admitted and len(admitted) <= 7:
    binding = sp.binding_constraints(truth, admitted)
  for b in binding:
    counters['binding_' + b] += 1
  desc = sl.describe(case, with_frame=False)
  return {'nontrivial': bool(returned and binding), 'fp': util.fp(desc), 'classes': [spec['kind'], 'focus:%s' % focus],
          'counters': dict(counters), 'outcome': ' '.join(outcomes), 'violations': violations[:10],
          'sample': {'case': desc, 'outcomes': outcomes, 'binding_constraints': binding},
          'case': sl.describe(case) if violations else None}
