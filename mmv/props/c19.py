"""C19 — post-analysis data screening removes exactly what it reports.

Oracle: set arithmetic on the raw frame (input rows minus rows of the *reported* noisy geos
and outlier dates) and an own group-by for the aggregated series; run pair for row order.
"""
import collections
import datetime

import numpy as np
import pandas as pd

from mmv import bootstrap
from mmv import util

PROP = 'C19'
LEVEL = 'exploration'
RULE = ('Generated experiment frames (1-8 geos per group, 12-70 dates, unique / shifted / non-unique row labels with pre / test / cooldown periods, planted noisy geos '
        '(uncorrelated or constant) and outlier dates (spikes) or none, < 4 geos so that the noisy-geo test returns None, '
        'custom column names and group / period labels, unassigned geos, shuffled rows) are given to the real '
        'TBRDiagnostics.fit. get_data() must equal the input rows minus every row of the reported noisy geos and outlier '
        'dates (same order, columns, index); get_analysis_data() x / y must equal per-date control / treatment totals of '
        'that screened data; the caller frame must be unchanged; a row permutation must give the same reported results. '
        'A ValueError because screening removed a whole group is the documented outcome (counted). Non-trivial: fit '
        'succeeded and removed >= 1 geo or >= 1 date; distinct by input description.')
ASSUMPTIONS = ['the date is a column of the frame (the method selects it by name)',
               'frames have >= 12 dates (the correlation test needs >= 4 observations)']
EXHAUSTIVE = {'quick': False, 'thorough': False}
MINIMA = {'quick': {'missing_test_period_responses': 20, 'target_differs_from_key_response': 25, 'categorical_column_cases': 30, 'longer_third_arm_with_removed_date': 10, 'refits': 80, 'returned_frame_edits': 150, 'fits_ok': 300, 'removed_geo_cases': 40, 'removed_date_cases': 40, 'permutation_pairs': 300,
                    'nonunique_index_cases': 80, 'distinct_nontrivial': 100},
          'thorough': {'missing_test_period_responses': 250, 'target_differs_from_key_response': 300, 'categorical_column_cases': 400, 'longer_third_arm_with_removed_date': 150, 'refits': 1200, 'returned_frame_edits': 2000, 'fits_ok': 5000, 'removed_geo_cases': 600, 'removed_date_cases': 600, 'permutation_pairs': 5000,
                       'nonunique_index_cases': 1200, 'distinct_nontrivial': 1500}}
N = {'quick': 480, 'thorough': 7000}
CASE_TIMEOUT = {'quick': 180, 'thorough': 600}


def n_cases(tier):
  return N[tier]


def gen_case(tier, seed, idx):
  return {'tier': tier, 'seed': seed, 'idx': idx}


def make_frame(r, g):
  names = {'geo': 'geo', 'date': 'date', 'group': 'group', 'period': 'period', 'response': 'response'}
  labels = {'control': 1, 'treatment': 2, 'pre': 0, 'test': 1, 'cooldown': 2}
  custom = r.random() < 0.4
  if custom:
    names = {'geo': 'market', 'date': 'day', 'group': 'arm', 'period': 'phase', 'response': 'sales'}
    labels = {'control': r.choice([10, 3]), 'treatment': r.choice([20, 7]), 'pre': 5, 'test': 6, 'cooldown': 8}
  n_ctl = r.randrange(1, 9)
  n_trt = r.randrange(1, 9)
  n_pre = r.randrange(10, 50)
  n_test = r.randrange(2, 14)
  n_cool = r.choice([0, 0, 3, 7])
  D = n_pre + n_test + n_cool
  periods = [labels['pre']] * n_pre + [labels['test']] * n_test + [labels['cooldown']] * n_cool
  origin = datetime.date(2021, 1, 1) + datetime.timedelta(days=r.randrange(0, 400))
  date_style = r.choice(['ts', 'ts', 'ts', 'tz', 'ns', 'tz_local'])
  if date_style == 'tz':
    dates = [pd.Timestamp(origin + datetime.timedelta(days=i), tz='UTC') for i in range(D)]
  elif date_style == 'tz_local':
    dates = [pd.Timestamp(origin + datetime.timedelta(days=i), tz='Europe/Berlin') for i in range(D)]
  elif date_style == 'ns':
    dates = [pd.Timestamp(origin + datetime.timedelta(days=i)).as_unit('ns') for i in range(D)]
  else:
    dates = [pd.Timestamp(origin + datetime.timedelta(days=i)) for i in range(D)]
  t = np.arange(D)
  common = np.cumsum(g.normal(0, 0.7, D)) + 3 * np.sin(2 * np.pi * t / 7.0)
  plant_noisy = r.random() < 0.5
  plant_outlier = r.random() < 0.5
  rows = []
  gid = 100
  planted = {'noisy': [], 'outlier_dates': []}
  spike_dates = []
  if plant_outlier:
    for _ in range(r.randrange(1, 3)):
      spike_dates.append(r.randrange(0, D))
  groups = [(labels['control'], n_ctl), (labels['treatment'], n_trt)]
  u_extra = r.random()
  if u_extra < 0.2:
    groups.append((-1, r.randrange(1, 3)))
  elif u_extra < 0.35:
    # geos of a third arm / outside the experiment, labelled with some other id
    groups.append((r.choice([0, 3, 99]) if not custom else r.choice([1, 2, 99]), r.randrange(1, 3)))
  for grp, cnt in groups:
    for j in range(cnt):
      size = float(np.exp(g.normal(0, 0.4)))
      series = size * (100 + 5 * common + g.normal(0, 0.6, D))
      if plant_noisy and j == 0 and cnt >= 2 and (n_ctl + n_trt) >= 4 and r.random() < 0.7:
        kind = r.choice(['uncorrelated', 'constant', 'anti'])
        if kind == 'uncorrelated':
          series = size * (100 + g.normal(0, 6, D))
        elif kind == 'constant':
          series = np.full(D, 100.0 * size)
        else:
          series = size * (100 - 5 * common + g.normal(0, 0.6, D))
        planted['noisy'].append(gid)
      if grp == labels['treatment']:
        for k in spike_dates:
          series = series.copy()
          series[k] += size * r.choice([40, 80, -40])
      for k in range(D):
        rows.append((dates[k], gid, grp, periods[k], float(series[k])))
      gid += r.choice([1, 1, 3])
  planted['outlier_dates'] = [str(dates[k]) for k in spike_dates]
  longer_arm = False
  if len(groups) == 3 and r.random() < 0.6:
    # the geos outside the experiment report one or two days longer than the two experiment groups
    longer_arm = True
    last = dates[-1]
    for gid_, grp_ in sorted({(row[1], row[2]) for row in rows if row[2] == groups[2][0]}):
      for j in range(1, r.randrange(2, 4)):
        rows.append((last + pd.Timedelta(days=j), gid_, grp_, periods[-1], float(g.normal(100, 3))))
  r.shuffle(rows)
  frame = pd.DataFrame(rows, columns=[names['date'], names['geo'], names['group'], names['period'], names['response']])
  categorical = None
  u_cat = r.random()
  if u_cat < 0.12:
    frame[names['date']] = frame[names['date']].astype('category')
    categorical = 'date'
  elif u_cat < 0.2:
    frame[names['period']] = frame[names['period']].astype('category')
    categorical = 'period'
  if r.random() < 0.3:
    frame['other'] = 1.5
  u = r.random()
  index_kind = 'range'
  if u < 0.2:
    frame.index = frame.index + 1000
    index_kind = 'shifted'
  elif u < 0.45:
    # non-unique row labels, as produced by pd.concat of per-geo frames without ignore_index
    frame.index = pd.Index(frame.groupby(names['geo']).cumcount().to_numpy())
    index_kind = 'per-geo-counter'
  elif u < 0.55:
    frame.index = pd.Index(np.zeros(len(frame), dtype=int))
    index_kind = 'all-zero'
  elif u < 0.65:
    frame.index = pd.Index(frame[names['geo']].to_numpy(), name='geo_id')
    index_kind = 'geo-labelled'
  kwargs = {}
  if custom:
    kwargs = {'key_geo': names['geo'], 'key_date': names['date'], 'key_group': names['group'], 'key_period': names['period'],
              'key_response': names['response'], 'group_control': labels['control'], 'group_treatment': labels['treatment'],
              'period_pre': labels['pre'], 'period_test': labels['test'], 'period_cooldown': labels['cooldown']}
  desc = {'n_ctl': n_ctl, 'n_trt': n_trt, 'n_pre': n_pre, 'n_test': n_test, 'n_cool': n_cool, 'custom_names': custom,
          'planted': planted, 'longer_third_arm': longer_arm, 'categorical': categorical, 'index_kind': index_kind, 'date_style': date_style, 'group_labels': [g_[0] for g_ in groups], 'unassigned_geos': len(groups) == 3, 'seed_tag': r.randrange(1 << 30)}
  return frame, kwargs, names, labels, desc


def run_case(spec):
  r, g = util.rngs(PROP, spec['seed'], spec['idx'])
  mod = bootstrap.mm('tbrdiagnostics')
  frame, kwargs, names, labels, desc = make_frame(r, g)
  counters = collections.Counter()
  violations = []

  def add(clause, mech, detail):
    violations.append({'clause': clause, 'mech': mech, 'detail': '%s; case %r' % (detail, desc)})

  def done(nontrivial, cls):
    return {'nontrivial': nontrivial, 'fp': util.fp(desc), 'classes': cls, 'counters': dict(counters),
            'violations': violations[:6], 'sample': desc}

  if r.random() < 0.2:
    # a few responses of experiment geos are missing during the test / cooldown period
    cand = frame.index[(frame[names['period']].astype(int) != labels['pre'])
                       & frame[names['group']].isin([labels['control'], labels['treatment']])]
    if len(cand) and frame.index.is_unique:
      for lab in r.sample(list(cand), min(len(cand), r.randrange(1, 4))):
        frame.loc[lab, names['response']] = float('nan')
      counters['missing_test_period_responses'] += 1
      desc['missing_test_period_responses'] = True
  alt_target = bool(kwargs) and r.random() < 0.35
  if alt_target:
    # the frame carries a second metric; the caller names it as `target` while key_response still names the first
    frame['alt_metric'] = frame[names['response']] * 0.37 + 5.0
    counters['target_differs_from_key_response'] += 1
    desc['alt_target'] = True
  before = frame.copy(deep=True)
  d = mod.TBRDiagnostics()
  target = None if (not kwargs or r.random() < 0.5) else names['response']
  if alt_target:
    target = 'alt_metric'
  tcol = target or names['response']
  if r.random() < 0.3:
    # one diagnostics object is used for two experiments in a row: results must be those of the last fit only
    r2, g2 = util.rngs(PROP, spec['seed'], spec['idx'], salt=1)
    decoy = make_frame(r2, g2)
    util.call(d.fit, decoy[0], None, **decoy[1])
    counters['refits'] += 1
  fit = util.call(d.fit, frame, target, **kwargs)
  counters['fits'] += 1
  if not frame.equals(before) or list(frame.index) != list(before.index) or list(frame.columns) != list(before.columns):
    add('input-mutated', 'screen-input-mutated', 'fit() changed the caller frame')
  if not fit.ok:
    if fit.exc_type == 'ValueError' and 'Both control and treatment' in str(fit.exc):
      # documented outcome only if what was *reported* as removed really leaves a group empty
      rep = d.get_test_results()
      gone_geos = set(rep.get('noisy_geos') or [])
      gone_dates = set(rep.get('outlier_dates') or [])
      left = before[~before[names['geo']].isin(gone_geos) & ~before[names['date']].isin(gone_dates)]
      groups_left = set(left[names['group']].unique())
      if labels['control'] in groups_left and labels['treatment'] in groups_left:
        add('fit-raises', 'screen-raises-although-both-groups-remain',
            'fit raised "%s" although the input minus the reported noisy geos %r and outlier dates %r still holds both groups' % (
                str(fit.exc)[:60], sorted(gone_geos), sorted(map(str, gone_dates))))
        return done(True, ['fit-raised'])
      counters['whole_group_removed'] += 1
      return done(False, ['group-removed'])
    add('fit-raises', 'screen-fit-raises:' + fit.exc_type, 'TBRDiagnostics.fit raised %s' % fit.describe())
    return done(True, ['fit-raised'])
  counters['fits_ok'] += 1
  res = d.get_test_results()
  noisy = res.get('noisy_geos')
  dates_out = res.get('outlier_dates') or []
  n_geos = before[names['geo']].nunique()
  if n_geos < 4 and noisy is not None:
    add('noisy-none', 'screen-noisy-geos-not-none', 'fewer than 4 geos but noisy_geos=%r' % (noisy,))
  noisy_set = set(noisy or [])
  out_set = set(dates_out)
  want = before[~before[names['geo']].isin(noisy_set) & ~before[names['date']].isin(out_set)]
  got = d.get_data()
  if got is not None and r.random() < 0.5:
    # a caller edits the frame it was given back; a later read must not be affected
    try:
      got['scratch'] = 1
      got.drop(got.index[:3], inplace=True)
      got[names['response']] = 0.0
    except Exception:  # pylint: disable=broad-except
      pass
    counters['returned_frame_edits'] += 1
    got = d.get_data()
  if got is None:
    add('get-data', 'screen-get-data-none', 'get_data() returned None after fit')
    return done(True, ['ok'])
  if list(got.columns) != list(want.columns) or list(got.index) != list(want.index) or not got.equals(want):
    extra = len(set(got.index) - set(want.index))
    missing = len(set(want.index) - set(got.index))
    add('screened-data', 'screened-data-mismatch',
        'get_data() has %d rows, input minus reported noisy geos %r and outlier dates %r has %d (rows kept that should go: %d, rows gone that should stay: %d)' % (
            len(got), sorted(noisy_set), sorted(map(str, out_set)), len(want), extra, missing))
  # aggregated analysis series
  ad = d.get_analysis_data()
  dates = sorted(set(dt for dt, grp in zip(want[names['date']], want[names['group']]) if grp in (labels['control'], labels['treatment'])))
  xs = {dt: 0.0 for dt in dates}
  ys = {dt: 0.0 for dt in dates}
  for dt, grp, v in zip(want[names['date']], want[names['group']], want[tcol]):
    if v != v:
      continue              # a missing response contributes nothing to the total
    if grp == labels['control']:
      xs[dt] += v
    elif grp == labels['treatment']:
      ys[dt] += v
  try:
    a_dates = list(ad.index)
    ax = np.asarray(ad['x'], dtype=float)
    ay = np.asarray(ad['y'], dtype=float)
    if [str(v) for v in a_dates] != [str(v) for v in dates]:
      add('analysis-dates', 'analysis-dates', 'analysis data has %d dates, screened data %d' % (len(a_dates), len(dates)))
    else:
      wx = np.array([xs[dt] for dt in dates])
      wy = np.array([ys[dt] for dt in dates])
      if not np.allclose(ax, wx, rtol=1e-10) or not np.allclose(ay, wy, rtol=1e-10):
        k = int(np.argmax(np.abs(ax - wx) + np.abs(ay - wy)))
        add('analysis-totals', 'analysis-totals', 'on %s analysis (x, y)=(%.10g, %.10g), screened per-date control / treatment totals (%.10g, %.10g)' % (
            dates[k], ax[k], ay[k], wx[k], wy[k]))
      per = {dt: p for dt, p in zip(want[names['date']], want[names['period']])}
      if [int(v) for v in ad[names['period']]] != [int(per[dt]) for dt in dates]:
        add('analysis-period', 'analysis-period', 'period column of the analysis data does not match the dates')
  except Exception as e:  # pylint: disable=broad-except
    add('analysis-shape', 'analysis-shape', 'analysis data unreadable: %r' % (e,))
  # row-order independence
  perm = before.sample(frac=1.0, random_state=r.randrange(1 << 30))
  d2 = mod.TBRDiagnostics()
  f2 = util.call(d2.fit, perm, target, **kwargs)
  counters['permutation_pairs'] += 1
  if not f2.ok:
    add('permutation', 'screen-permutation-raises:' + f2.exc_type, 'permuted rows: fit raised %s' % f2.describe())
  else:
    r2 = d2.get_test_results()
    same = (set(r2.get('noisy_geos') or []) == noisy_set and (r2.get('noisy_geos') is None) == (noisy is None)
            and set(r2.get('outlier_dates') or []) == out_set and r2.get('corr_test') == res.get('corr_test'))
    if not same:
      add('permutation', 'screen-row-order-dependence', 'results for permuted rows differ: %r vs %r' % (
          {k: r2.get(k) for k in ('noisy_geos', 'outlier_dates', 'corr_test')},
          {k: res.get(k) for k in ('noisy_geos', 'outlier_dates', 'corr_test')}))
  if desc['index_kind'] in ('per-geo-counter', 'all-zero', 'geo-labelled'):
    counters['nonunique_index_cases'] += 1
  counters['categorical_column_cases'] += bool(desc.get('categorical'))
  counters['longer_third_arm_cases'] += bool(desc.get('longer_third_arm'))
  counters['longer_third_arm_with_removed_date'] += bool(desc.get('longer_third_arm') and out_set)
  if noisy_set:
    counters['removed_geo_cases'] += 1
  if out_set:
    counters['removed_date_cases'] += 1
  return done(bool(noisy_set or out_set), ['ok', 'removed-geo' if noisy_set else 'no-geo', 'removed-date' if out_set else 'no-date'])
