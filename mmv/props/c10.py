"""C10 — the search API has no hidden state: answers do not depend on call history.

History checker: a random sequence of public query / search / result calls is applied to
ONE matched-markets object; each call's normalised answer (or exception type) is compared
with the answer of the same call on a freshly built object (fresh data object from the
same frame, fresh equal parameters). search_results() is compared with what the last
search returned. dataclasses.asdict(parameters) and the caller's frame are snapshotted
around every call.
"""
import collections
import dataclasses

from mmv import probes
from mmv import searchlab as sl
from mmv import util

PROP = 'C10'
LEVEL = 'exploration'
OPS_NOTE = 'plus sibling_search: a search on a second object sharing the data object (not judged itself)'
OPS = ['geos_over_budget', 'geos_too_large', 'geos_must_include', 'geos_within_constraints', 'geo_assignments',
       'treatment_group_size_range', 'count_max_designs', 'list_treatment_groups', 'list_control_groups',
       'design_within_constraints', 'exhaustive_search', 'greedy_search', 'search_results']
RULE = ('Histories of 2-12 operations over {%s} (and searches of a sibling object that shares the data object) on one object (2-5 geos; parameters with unspecified size ranges in '
        'most cases), biased towards search -> results -> results, greedy -> exhaustive, search -> queries. Each answer '
        'is normalised (sets of IDs, sorted index lists, design lists with groups / score / correlation / impact) and '
        'compared with the same call on a freshly built object; parameters (asdict) and the input frame are compared '
        'before / after every call. Non-trivial: the history contains a search followed by >= 1 further call; distinct '
        'by (input, operation sequence). Operation bigrams covered are reported.' % ', '.join(OPS))
ASSUMPTIONS = ['fresh-object replay = the code itself without history (sequential reference model)',
               'search_results() before any search is not generated (no documented answer)']
EXHAUSTIVE = {'quick': False, 'thorough': False}
HASH_SEEDS = {'quick': [0], 'thorough': [0, 1, 2]}
MINIMA = {'quick': {'stranger_calls': 50, 'returned_set_edits': 40, 'prior_sibling_cases': 30, 'returned_design_edits': 50, 'sibling_searches': 80, 'ops_compared': 1200, 'set:bigrams': 100, 'distinct_nontrivial': 150, 'repeat_results': 100,
                    'param_snapshots': 1200},
          'thorough': {'stranger_calls': 600, 'returned_set_edits': 500, 'prior_sibling_cases': 400, 'returned_design_edits': 700, 'sibling_searches': 1000, 'ops_compared': 16000, 'set:bigrams': 150, 'distinct_nontrivial': 2000, 'repeat_results': 1500,
                       'param_snapshots': 16000}}
N = {'quick': 320, 'thorough': 4000}
CASE_TIMEOUT = {'quick': 300, 'thorough': 900}


def n_cases(tier):
  return N[tier]


def gen_case(tier, seed, idx):
  return {'tier': tier, 'seed': seed, 'idx': idx}


def prepare(tier):
  probes.install_heap()


def norm_assign(ga):
  return {k: sorted(getattr(ga, k)) for k in ['all', 'c', 't', 'x', 'c_fixed', 't_fixed', 'x_fixed', 'ct', 'cx', 'ctx', 'tx']}


def _num(v, f):
  """NaN-safe normalisation (NaN != NaN would make equal answers look different)."""
  if v is None:
    return None
  return 'nan' if v != v else f(v)


def norm_designs(ds):
  out = []
  for d in ds:
    nd = sl.norm_design(d)
    out.append((tuple(nd['t']), tuple(nd['c']), tuple(round(v, 12) if v == v else 'nan' for v in nd['score']),
                _num(nd.get('corr'), lambda v: round(v, 12)),
                _num(nd.get('impact'), lambda v: float('%.10g' % v))))
  return out


EDITS = [0]


def do_op(mm, op, arg, edit=False, direct=False):
  if op in ('geos_over_budget', 'geos_too_large', 'geos_must_include', 'geos_within_constraints'):
    raw = getattr(mm, op)
    out = sorted(raw)
    if edit and isinstance(raw, set):
      # the caller uses the set it was handed as scratch space
      raw.clear()
      raw.add('__edited_by_caller__')
      EDITS[0] += 1
    return out
  if op == 'geo_assignments':
    return norm_assign(mm.geo_assignments)
  if op == 'treatment_group_size_range':
    return list(mm.treatment_group_size_range())
  if op == 'count_max_designs':
    return int(mm.count_max_designs())
  if op == 'list_treatment_groups':
    sizes = list(mm.treatment_group_size_range())
    if not sizes:
      return []
    n = sizes[arg % len(sizes)]
    return sorted(tuple(sorted(t)) for t in mm.treatment_group_generator(n))
  if op == 'list_control_groups':
    sizes = list(mm.treatment_group_size_range())
    if not sizes:
      return []
    groups = sorted(tuple(sorted(t)) for t in mm.treatment_group_generator(sizes[0]))
    if not groups:
      return []
    T = set(groups[arg % len(groups)])
    return sorted(tuple(sorted(c)) for c in mm.control_group_generator(T))
  if op == 'design_within_constraints':
    # asked directly, without listing anything first (when an index is in place already, it is not touched)
    gi = mm.data.geo_index if direct else None
    n = len(gi) if gi is not None else len(mm.geo_assignments.all)
    if n < 2:
      return None
    T = {arg % n}
    C = {(arg // n + 1 + arg) % n} - T or {(arg + 1) % n}
    return bool(mm.design_within_constraints(T, C))
  if op == 'exhaustive_search':
    return norm_designs(mm.exhaustive_search())
  if op == 'greedy_search':
    return norm_designs(mm.greedy_search())
  if op == 'search_results':
    return norm_designs(mm.search_results())
  raise KeyError(op)


def gen_history(r):
  L = r.randrange(2, 13)
  ops = []
  searched = False
  pattern = r.random()
  while len(ops) < L:
    u = r.random()
    if not searched and (pattern < 0.6 and len(ops) == 0 or u < 0.25):
      op = r.choice(['exhaustive_search', 'greedy_search', 'greedy_search'])
    elif searched and u < 0.35:
      op = 'search_results'
    elif searched and u < 0.5:
      op = r.choice(['exhaustive_search', 'greedy_search'])
    elif u < 0.6:
      op = 'sibling_search'
    elif u < 0.68:
      op = 'stranger_search'
    else:
      op = r.choice(OPS[:10])
    if op == 'search_results' and not searched:
      continue
    if op.endswith('_search'):
      searched = True
    ops.append((op, r.randrange(0, 1000)))
  return ops


def run_case(spec):
  r, g = util.rngs(PROP, spec['seed'], spec['idx'])
  G = r.randrange(2, 6)
  allow = ('ratio', 'volume', 'share', 'budget', 'ngeos') if r.random() < 0.7 else None
  ties = spec['idx'] % 4 == 3 and G >= 3
  case = sl.make_case(r, g, G, n_dates=r.randrange(10, 40), allow=allow, elig_extra='none',
                      cls='duplicates' if ties else None, elig_mode='none' if ties else None)
  if ties:
    # twin geos give designs with bit-identical scores: their order must be the same at every retrieval
    tw = [f for f in case['panel']['features'] if f.startswith('twins:')]
    if tw:
      a, b = (int(v) for v in tw[0][6:].split(','))
      ids_ = [str(i) for i in case['panel']['ids']]
      # the twins are control-only, so they never face each other (a perfectly correlated pair is refused)
      case['elig_rows'] = {gid: ('cx' if k in (a, b) else 'ctx') for k, gid in enumerate(ids_)}
    case['params']['n_designs'] = r.choice([2, 3, 5, 50])
    for k in ('budget_range', 'treatment_share_range', 'n_geos_max'):
      case['params'].pop(k, None)
  if not ties and spec['idx'] % 5 == 1 and case['params']['iroas'] > 0:
    # another search object with a different flevel was built on the data object first, and the budget bound sits
    # between the single-geo budgets implied by the two flevels
    kw = case['params']
    fa = kw.get('flevel', 0.9)
    fb = r.choice([v for v in (0.8, 0.9, 0.95, 0.99) if v != fa])
    t_a = sl.Truth(case)
    t_b = sl.Truth(dict(case, params=dict(kw, flevel=fb)))
    gid = r.choice(t_a.ids)
    ia, ib = t_a.opt_impact([gid]), t_b.opt_impact([gid])
    if ia > 0 and ib > 0 and abs(ia - ib) > 1e-6 * ia:
      kw['budget_range'] = (0.0, (ia + r.choice([0.3, 0.5, 0.7]) * (ib - ia)) / kw['iroas'])
      case['prior_sibling'] = {'flevel': fb}
      counters_pre = 1
  if not ties and spec['idx'] % 5 == 3 and G >= 3:
    case['params']['n_geos_max'] = r.randrange(2, G)         # binding truncation of the admitted set
    if spec['idx'] % 2 == 0 and case['params']['iroas'] > 0:
      # ... with a geo that may not be left out and a budget range that every single geo meets
      ids_ = [str(i) for i in case['panel']['ids']]
      rows_ = dict(case['elig_rows']) if case['elig_rows'] is not None else {gid: 'ctx' for gid in ids_}
      rows_[r.choice(ids_)] = r.choice(['ct', 'c_fixed', 't_fixed'])
      case['elig_rows'] = rows_
      case['extra'] = {}
      t_ = sl.Truth(case)
      case['params'].pop('treatment_share_range', None)
      case['params']['budget_range'] = (0.0, 3.0 * max(t_.opt_impact([gid]) for gid in t_.ids) / case['params']['iroas'])
  desc = sl.describe(case, with_frame=False)
  ops = gen_history(r)
  if not ties and spec['idx'] % 5 == 4 and G >= 3:
    # both size ranges and a volume tolerance given (so a direct constraint query needs no listing of its own), an
    # unrelated object on other data used in between, then several direct constraint queries
    kw_ = case['params']
    for k_ in ('treatment_share_range', 'budget_range', 'n_geos_max', 'geo_ratio_tolerance'):
      kw_.pop(k_, None)
    kw_['treatment_geos_range'] = (1, G - 1)
    kw_['control_geos_range'] = (1, G - 1)
    kw_['volume_ratio_tolerance'] = r.choice([0.2, 0.5, 1.0])
    desc = sl.describe(case, with_frame=False)
    ops = [(r.choice(['greedy_search', 'exhaustive_search', 'count_max_designs']), 0), ('stranger_search', 2 * r.randrange(0, 3))]
    ops += [('design_within_constraints', r.randrange(0, 1000)) for _ in range(r.randrange(3, 8))]
  if case['params'].get('n_geos_max') is not None and spec['idx'] % 2 == 1:
    # the caller re-uses the admitted set it was handed as scratch space at some point before the end of the history
    ops.insert(r.randrange(0, len(ops)), ('geos_within_constraints', 0))
  counters = collections.Counter()
  violations = []
  bigrams = set()
  built = util.call(sl.build, case)
  if not built.ok:
    return {'nontrivial': False, 'fp': util.fp(desc), 'classes': ['not-built'], 'counters': {'not_built': 1},
            'violations': [], 'sample': None, 'outcome': 'build:' + built.exc_type}
  data, par, mm = built.value
  probes.reset()
  frame_fp = sl.frame_fingerprint(case['frame'])
  par0 = dataclasses.asdict(par)
  last_search_answer = None
  prev = 'init'
  log = []
  searched_then_more = False
  seen_search = False
  sibling = None
  stranger = None
  own_index = False
  for op, arg in ops:
    if op == 'stranger_search':
      # an unrelated search object on ANOTHER data object (same number of geos, other volumes) is used in between:
      # nothing of it may show in the answers of the object under test
      if stranger is None:
        r3, g3 = util.rngs(PROP, spec['seed'], spec['idx'], salt=7)
        other_case = sl.make_case(r3, g3, G, n_dates=len(case['panel']['dates']), allow=('volume', 'ratio'), elig_extra='none')
        other_case['params']['volume_ratio_tolerance'] = r3.choice([0.3, 1.0, 3.0])
        ob = util.call(sl.build, other_case, None, None, True)
        stranger = ob.value[2] if ob.ok else False
      if stranger:
        util.call(getattr(stranger, ['greedy_search', 'exhaustive_search', 'count_max_designs'][arg % 3]))
        if arg % 2 == 0:
          # ... followed by direct constraint queries on the unrelated object for every pair of single geos
          for i_ in range(G):
            for j_ in range(G):
              if i_ != j_:
                util.call(stranger.design_within_constraints, {i_}, {j_})
        counters['stranger_calls'] += 1
        bigrams.add(prev + '>' + op)
        prev = op
        log.append(op)
      continue
    if op == 'sibling_search':
      # a second matched-markets object on the SAME data object (different admitted geos) runs a search in
      # between; it is not judged itself, but every later answer of the first object still must be the fresh one
      if sibling is None:
        smod, pmod = sl.bootstrap.mm('tbrmatchedmarkets'), sl.bootstrap.mm('tbrmmdesignparameters')
        sib = util.call(lambda: smod.TBRMatchedMarkets(data, pmod.TBRMMDesignParameters(**sl.alt_params(case, r))))
        sibling = sib.value if sib.ok else False
      if sibling:
        util.call(getattr(sibling, ['greedy_search', 'exhaustive_search'][arg % 2]))
        counters['sibling_searches'] += 1
        own_index = False
        # retrieval of A's *stored* results after another object re-indexed the shared data object is outside
        # the property's quantifier (call sequences of ONE object): stored designs hold positions that are mapped
        # through the data object's current geo index. Not judged until A searches again (DESIGN §11.2).
        seen_search = False
        last_search_answer = None
        bigrams.add(prev + '>' + op)
        prev = op
        log.append(op)
      continue
    bigrams.add(prev + '>' + op)
    prev = op
    if seen_search:
      searched_then_more = True
    before = dataclasses.asdict(par)
    # "direct": only while the index in place on the data object is the one this object installed itself (no sibling
    # - in this history or before it, see build() - has re-indexed the shared data object since)
    live = util.call(do_op, mm, op, arg, arg % 3 == 0, own_index)
    if op in ('geo_assignments', 'count_max_designs', 'list_treatment_groups', 'list_control_groups', 'exhaustive_search', 'greedy_search'):
      own_index = live.ok
    after = dataclasses.asdict(par)
    counters['param_snapshots'] += 1
    log.append(op)
    if after != before or after != par0:
      changed = sorted(k for k in after if after[k] != par0[k])
      violations.append({'clause': 'parameters-mutated', 'mech': 'params-mutated-by:' + op + ':' + '+'.join(changed),
                         'detail': '%s changed the caller\'s parameter object: %s; history %r' % (
                             op, {k: (par0[k], after[k]) for k in changed}, log)})
      break
    if op == 'search_results' and not seen_search:
      log.pop()
      continue          # no successful search so far: no documented answer
    if op == 'search_results':
      counters['repeat_results'] += 1
      want = last_search_answer
      if not live.ok:
        violations.append({'clause': 'repeat-results', 'mech': 'search_results-raises:' + live.exc_type,
                           'detail': 'search_results() after %r raised %s; history %r' % (log[:-1][-3:], live.describe(), log)})
        break
      if want is not None and live.value != want:
        violations.append({'clause': 'repeat-results', 'mech': 'search_results-differs',
                           'detail': 'search_results() differs from what the last search returned; history %r: %r vs %r' % (
                               log, live.value[:2], want[:2])})
        break
      counters['ops_compared'] += 1
      continue
    fresh_built = util.call(sl.build, case, None, None, True)
    if not fresh_built.ok:
      break
    fresh = util.call(do_op, fresh_built.value[2], op, arg)
    counters['ops_compared'] += 1
    if live.ok != fresh.ok or (not live.ok and live.exc_type != fresh.exc_type):
      violations.append({'clause': 'history-dependence', 'mech': 'history:' + op + ':outcome',
                         'detail': '%s on the used object: %s; on a fresh object: %s; history %r' % (op, live.describe(), fresh.describe(), log)})
      break
    if live.ok and live.value != fresh.value:
      violations.append({'clause': 'history-dependence', 'mech': 'history:' + op,
                         'detail': '%s answers %r on the used object and %r on a fresh object; history %r' % (
                             op, _short(live.value), _short(fresh.value), log)})
      break
    if op.endswith('_search'):
      seen_search = True
      last_search_answer = live.value if live.ok else None
      if live.ok:
        # retrieving the results right away must give the same designs
        again = util.call(do_op, mm, 'search_results', 0)
        counters['repeat_results'] += 1
        if not again.ok:
          violations.append({'clause': 'repeat-results', 'mech': 'search_results-raises:' + again.exc_type,
                             'detail': 'search_results() right after %s raised %s; history %r' % (op, again.describe(), log)})
          break
        if again.value != live.value:
          violations.append({'clause': 'repeat-results', 'mech': 'search_results-differs',
                             'detail': 'search_results() right after %s differs from its return value; history %r' % (op, log)})
          break
      else:
        last_search_answer = None
        seen_search = False
  # no process-wide hidden state: whatever the caller does to the arrays inside designs it was handed, a search on a
  # freshly built object afterwards must still give the fresh-object answer recorded before
  if spec['idx'] % 3 == 0 and not violations:
    which_ = r.choice(['exhaustive_search', 'greedy_search'])
    fb = util.call(sl.build, case)
    if fb.ok:
      base = util.call(do_op, fb.value[2], which_, 0)
      got_designs = util.call(getattr(mm, which_))
      if got_designs.ok:
        for d_ in got_designs.value:
          for arr in (getattr(d_.diag.bbtest, 'bounds', None), getattr(d_.diag.bbtest, 'abscumresid', None), d_.diag.x, d_.diag.y,
                      getattr(d_.diag.pretestfit, 'resid', None)):
            try:
              if arr is not None:
                arr *= 0.0
            except Exception:  # pylint: disable=broad-except
              pass
        counters['returned_design_edits'] += 1
        fb2 = util.call(sl.build, case)
        if fb2.ok:
          after = util.call(do_op, fb2.value[2], which_, 0)
          if base.ok != after.ok or (base.ok and base.value != after.value):
            violations.append({'clause': 'process-wide-state', 'mech': 'process-wide-state',
                               'detail': '%s on a fresh object changed after the caller zeroed the arrays inside designs returned to it: %s vs %s' % (
                                   which_, _short(base.value if base.ok else base.describe()), _short(after.value if after.ok else after.describe()))})
  counters['returned_set_edits'] += EDITS[0]
  EDITS[0] = 0
  counters['prior_sibling_cases'] += bool(case.get('prior_sibling'))
  for a in probes.ALARMS[:3]:
    # P-HEAP reads the container twice at every retrieval and compares the two reads item by item
    violations.append({'clause': 'repeat-results', 'mech': 'heap-' + str(a.get('clause')),
                       'detail': 'P-HEAP: %s; history %r' % (a.get('detail'), log)})
  if sl.frame_fingerprint(case['frame']) != frame_fp:
    violations.append({'clause': 'frame-mutated', 'mech': 'frame-mutated', 'detail': 'caller\'s input frame changed; history %r' % log})
  return {'nontrivial': searched_then_more, 'fp': util.fp([desc, log]), 'classes': ['history', 'ties' if ties else 'no-ties'],
          'counters': dict(counters), 'sets': {'bigrams': sorted(bigrams)}, 'violations': violations[:5],
          'sample': {'case': desc, 'history': log},
          'case': sl.describe(case) if violations else None}


def _short(v):
  s = repr(v)
  return s if len(s) < 300 else s[:300] + '...'
