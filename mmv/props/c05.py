"""C05 — required impact is calibrated to the post-analysis test at the stated power.

Two-sided differential monitor between two separately written code paths of the
repository (design-side closed form in TBRMMDiagnostics vs analysis-side OLS covariance
propagation in tbr.TBR) with an independent numpy closed form as referee, plus metamorphic
relations (unit scaling by 2^k, level shift, monotone / symmetric in correlation).
"""
import collections
import datetime
import math

import numpy as np
import pandas as pd
from scipy import stats

from mmv import bootstrap
from mmv import gen
from mmv import tbrref
from mmv import util

PROP = 'C05'
LEVEL = 'exploration'
RULE = ('Each case draws n in 3..120 pre-period points, n_test in 1..60, sig_level and power_level in (0.01, 0.995), '
        'flevel in [0.9, 0.9995], |correlation| from 0.3 to 0.9999, level / sd up to 1e5, 1-4 geos per group. The real '
        'TBRMMDiagnostics gives required_impact; an experiment frame is built whose test-period control mean is displaced '
        'by the planning F-quantile and whose treatment carries exactly that total lift; the real tbr.TBR is fitted on it: '
        'required_impact must equal (t_sig + t_pow) x TBR scale, TBR.summary(level=sig_level, tails=1) must estimate the '
        'lift with lower bound t_pow x scale. Metamorphic: x 2^k exact, level shift, strictly decreasing in |corr| on a '
        'grid, symmetric in its sign. Non-trivial: every judged case; distinct by (n, n_test, sig, power, flevel).')
ASSUMPTIONS = ['identity tolerance 1e-8 relative; estimate tolerance 1e-6 relative to the lift plus 1e-9 x test-period volume '
               '(statsmodels pinv OLS on deliberately ill-conditioned data)',
               'residual variance > 0 (|corr| <= 0.9999)']
EXHAUSTIVE = {'quick': False, 'thorough': False}
MINIMA = {'quick': {'exact_zero_correlation': 30, 'buffer_edits': 300, 'object_reuse': 600, 'identity_checked': 1500, 'tbr_fits': 1500, 'distinct_nontrivial': 1000, 'metamorphic_checked': 1500},
          'thorough': {'exact_zero_correlation': 500, 'buffer_edits': 5000, 'object_reuse': 9000, 'identity_checked': 25000, 'tbr_fits': 25000, 'distinct_nontrivial': 15000, 'metamorphic_checked': 25000}}
N = {'quick': 2000, 'thorough': 30000}


def n_cases(tier):
  return N[tier]


def gen_case(tier, seed, idx):
  return {'tier': tier, 'seed': seed, 'idx': idx}


def split(total, k, g):
  """Splits a series into k positive-weight parts that sum back to it."""
  w = g.uniform(0.2, 1.0, size=k)
  w = w / w.sum()
  parts = [total * wi for wi in w[:-1]]
  parts.append(total - sum(parts) if parts else total)
  return parts


def build_frame(r, g, x_pre, y_pre, x_test, y_test, n_ctl, n_trt):
  n, m = len(x_pre), len(x_test)
  origin = datetime.date(2020, 1, 1) + datetime.timedelta(days=r.randrange(0, 500))
  dates = [pd.Timestamp(origin + datetime.timedelta(days=i)) for i in range(n + m)]
  periods = [0] * n + [1] * m
  rows = []
  gid = 1
  for grp, tot, k in ((1, np.concatenate([x_pre, x_test]), n_ctl), (2, np.concatenate([y_pre, y_test]), n_trt)):
    for part in split(tot, k, g):
      for i in range(n + m):
        rows.append((dates[i], gid, grp, periods[i], float(part[i]), 0.0))
      gid += 1
  r.shuffle(rows)
  return pd.DataFrame(rows, columns=['date', 'geo', 'group', 'period', 'response', 'cost'])


def run_case(spec):
  r, g = util.rngs(PROP, spec['seed'], spec['idx'])
  pmod = bootstrap.mm('tbrmmdesignparameters')
  dmod = bootstrap.mm('tbrmmdiagnostics')
  tbr = bootstrap.mm('tbr')
  n = gen.weighted(r, [(3, 1), (4, 1), (5, 1), (r.randrange(6, 15), 3), (r.randrange(15, 60), 3), (r.randrange(60, 121), 2),
                       (r.randrange(480, 1300), 0.4)])      # long daily / hourly pre-periods (d.f. in the hundreds)
  m = gen.weighted(r, [(1, 1), (2, 1), (r.randrange(3, 15), 3), (r.randrange(15, 61), 2)])
  sig = r.choice([0.9, 0.8, 0.95, 0.6, round(r.uniform(0.01, 0.995), 4)])
  power = r.choice([0.8, 0.9, 0.5, 0.7, round(r.uniform(0.01, 0.995), 4)])
  if spec['idx'] % 25 == 7:
    # levels next to the ends of (0, 1) are inside the documented domain
    if r.random() < 0.5:
      sig = r.choice([1e-9, 1e-12, 1e-15, 1 - 1e-9, 1 - 1e-12])
    else:
      power = r.choice([1e-9, 1e-12, 1e-15, 1 - 1e-9, 1 - 1e-12])
  flevel = r.choice([0.9, 0.95, 0.99, round(r.uniform(0.9, 0.9995), 5)])
  rho_target = r.choice([0.3, 0.6, 0.8, 0.9, 0.99, 0.999, 0.9999])
  sign = r.choice([1, 1, 1, -1])
  level = r.choice([0.0, 10.0, 1e3, 1e5])
  sd = r.choice([1.0, 5.0, 100.0])
  x0 = g.normal(0, 1, n)
  x0 = (x0 - x0.mean())
  if np.ptp(x0) == 0:
    x0[0] += 1.0
  x0 = x0 / x0.std()
  e = g.normal(0, 1, n)
  e = e - e.mean() - (e @ x0) / (x0 @ x0) * x0       # orthogonal to x0
  if n >= 3 and np.linalg.norm(e) > 1e-9:
    e = e / e.std()
  else:
    e = np.zeros(n)
  y0 = sign * rho_target * x0 + math.sqrt(max(0.0, 1 - rho_target ** 2)) * e
  x_pre = level + sd * x0
  y_pre = 2 * level + 3.0 + 1.7 * sd * y0
  exact_zero = spec['idx'] % 29 == 11
  if exact_zero:
    # small-integer on/off series (Walsh functions): the sample correlation is EXACTLY 0.0, all sums being exact
    n = r.choice([8, 16])
    m = min(m, 20)
    w1, w2, w3 = r.sample(range(1, n), 3)
    h = lambda w: np.array([(-1.0) ** bin(w & j).count('1') for j in range(n)])
    x_pre = float(r.randrange(10, 500)) + r.randrange(1, 9) * h(w1)
    y_pre = float(r.randrange(10, 500)) + r.randrange(1, 9) * h(w2) + r.randrange(0, 5) * h(w3)
    rho_target, sign = 0.0, 1
  violations = []
  desc = {'n': n, 'n_test': m, 'sig_level': sig, 'power_level': power, 'flevel': flevel,
          'rho_target': sign * rho_target, 'level': level, 'sd': sd, 'exact_zero_correlation': exact_zero}

  def add(clause, mech, detail):
    violations.append({'clause': clause, 'mech': mech, 'detail': '%s; case %r' % (detail, desc)})

  par = pmod.TBRMMDesignParameters(n_test=m, iroas=1.0, sig_level=sig, power_level=power, flevel=flevel)
  counters = collections.Counter()
  if r.random() < 0.5:
    # documented usage: one diagnostics object is re-used across series; plan on a decoy pair first
    decoy_n = r.choice([n, n, max(3, n - 2), n + 5])
    dy = 50.0 + 7.0 * g.normal(0, 1, decoy_n)
    diag = dmod.TBRMMDiagnostics(dy, par)
    diag.x = 20.0 + 3.0 * g.normal(0, 1, decoy_n) + 0.5 * dy
    _ = diag.required_impact, diag.estimate_required_impact(0.9)
    diag.y = y_pre
    counters['object_reuse'] += 1
  else:
    diag = dmod.TBRMMDiagnostics(y_pre, par)
  if r.random() < 0.3:
    # the caller hands over a work buffer and re-uses it afterwards: the object must keep the series it was given
    xbuf = np.array(x_pre, dtype=float)
    diag.x = xbuf
    xbuf *= 0.5
    xbuf += 11.0
    counters['buffer_edits'] += 1
  else:
    diag.x = x_pre
  ri_raw = diag.required_impact
  if ri_raw is None:
    add('required-impact', 'required-impact-none', 'required_impact is None although the control series is set (corr=%r)' % (diag.corr,))
    return {'nontrivial': True, 'fp': util.fp(desc), 'classes': ['impact-none'], 'counters': dict(counters), 'violations': violations, 'sample': None}
  ri = float(ri_raw)
  corr = float(diag.corr)
  counters['exact_zero_correlation'] += (corr == 0.0)
  ref = tbrref.Ref(x_pre, y_pre, x_pre[:1], y_pre[:1])
  if not (ref.sigma2 > 0) or not math.isfinite(ri) or abs(corr) >= 1:
    return {'nontrivial': False, 'fp': util.fp(desc), 'classes': ['degenerate'], 'counters': {'degenerate': 1},
            'violations': [], 'sample': None}
  tq = float(stats.t.ppf(sig, n - 2) + stats.t.ppf(power, n - 2))
  # referee: independent closed form
  ref_ri = gen.ref_required_impact(y_pre, x_pre, m, flevel, sig, power)
  ri_tol = 1e-8 * max(abs(ri), abs(ref_ri)) + 1e-12 * abs(tq) * (abs(level) + sd) * m
  # construct the experiment
  phi = float(stats.f.ppf(flevel, 1, n - 1))
  dx = math.sqrt(phi * (n + 1) * ref.sxx / (n * m * (n - 1)))
  if r.random() < 0.5 and m >= 2:
    wob = g.normal(0, 0.3 * sd, m)
    wob = wob - wob.mean()
  else:
    wob = np.zeros(m)
  x_test = ref.xbar + dx * r.choice([1, -1]) + wob
  x_test = x_test + (ref.xbar + (x_test.mean() - ref.xbar) - x_test.mean())   # keep the displaced mean
  y_test = ref.a + ref.b * x_test + ri / m
  frame = build_frame(r, g, x_pre, y_pre, x_test, y_test, r.randrange(1, 5), r.randrange(1, 5))
  model = tbr.TBR(use_cooldown=False)
  fit = util.call(model.fit, frame, 'response')
  if not fit.ok:
    add('fit', 'tbr-fit-raises:' + fit.exc_type, 'TBR.fit raised %s' % fit.describe())
    return {'nontrivial': True, 'fp': util.fp(desc), 'classes': ['fit-raised'], 'counters': dict(counters),
            'violations': violations, 'sample': None}
  counters['tbr_fits'] += 1
  dist = model.causal_cumulative_distribution(time=-1)
  scale_tbr = float(dist.kwds['scale'])
  # what the displaced mean really is (after float rounding) -> reference scale
  ref2 = tbrref.Ref(x_pre, y_pre, x_test, y_test)
  want = tq * scale_tbr
  counters['identity_checked'] += 1
  # conditioning of the analysis-side un-centred OLS: kappa ~ 1 + (mean / sd)^2 of the control series
  kappa = 1.0 + (ref.xbar / float(np.std(x_pre))) ** 2
  cond_tol = 1e-8 + 2e-15 * kappa
  if abs(ri - want) > cond_tol * max(abs(ri), abs(want)) + 1e-10 * abs(tq) * ref.sigma:
    # attribute with the referee
    side = 'design-side closed form' if abs(ref_ri - ri) > ri_tol else 'analysis-side posterior scale'
    add('identity', 'calibration-identity:' + ('design' if side.startswith('design') else 'analysis'),
        'required_impact=%.12g but (t_sig + t_pow) x TBR scale=%.12g (referee closed form %.12g, reference scale %.12g; %s disagrees)' % (
            ri, want, ref_ri, float(ref2.scale[-1]), side))
  elif abs(ref_ri - ri) > ri_tol:
    add('referee', 'calibration-referee', 'required_impact=%.12g, independent closed form %.12g' % (ri, ref_ri))
  summ = util.call(model.summary, level=sig, tails=1)
  if not summ.ok:
    add('summary', 'tbr-summary-raises:' + summ.exc_type, summ.describe())
  else:
    row = summ.value.iloc[-1]
    est, low = float(row['estimate']), float(row['lower'])
    vol = float(np.abs(y_test).sum()) + float(np.abs(y_pre).mean()) * m
    tol_e = 1e-6 * abs(ri) + (1e-9 + 1e-15 * kappa) * vol
    counters['summary_checked'] += 1
    if not (abs(est - ri) <= tol_e):
      mech = 'summary-estimate'
      if not math.isfinite(est):
        mech = 'summary-estimate-not-finite'
      add('estimate', mech, 'test period carries total lift %.12g but TBR.summary estimate=%r' % (ri, est))
    want_low = float(stats.t.ppf(power, n - 2)) * scale_tbr
    # TBR.summary takes a level and forms 1 - level itself: for levels within 1e-6 of 0 or 1 that subtraction limits the
    # accuracy of the reported quantile (on the unchanged code as well), so the bound is only judged away from the ends;
    # the identity above uses the quantiles directly and is judged everywhere
    extreme = min(sig, 1 - sig) < 1e-6
    if not extreme and not (abs(low - want_low) <= (1e-6 + cond_tol) * abs(want_low) + tol_e):
      add('lower', 'summary-lower', 'one-sided lower bound at level sig_level is %.12g, t_pow x scale=%.12g' % (low, want_low))
  # ---- metamorphic relations on the design side
  counters['metamorphic_checked'] += 1
  k = r.choice([r.randrange(-3, 13), r.randrange(-3, 13), r.randrange(-50, -20), r.randrange(20, 40)])
  c = 2.0 ** k
  if r.random() < 0.5:
    d2 = diag
    d2.y = y_pre * c
  else:
    d2 = dmod.TBRMMDiagnostics(y_pre * c, par)
  d2.x = x_pre * r.choice([c, 1.0, 2.0 ** r.randrange(-2, 5)])
  if not util.close(float(d2.required_impact), ri * c, rtol=1e-12):
    add('scaling', 'impact-not-linear-in-unit', 'responses x %g: required_impact %.15g, wanted %.15g' % (c, float(d2.required_impact), ri * c))
  shift = r.choice([1.0, 1e3, -50.0, 1e5])
  d3 = dmod.TBRMMDiagnostics(y_pre + shift, par)
  d3.x = x_pre + r.choice([0.0, shift, -shift])
  if not util.close(float(d3.required_impact), ri, rtol=1e-7 * (1 + (abs(shift) + abs(level)) / sd)):
    add('shift', 'impact-depends-on-level', 'level shift %g: required_impact %.12g vs %.12g' % (shift, float(d3.required_impact), ri))
  if d2 is diag:
    diag.y = y_pre
    diag.x = x_pre
  grid = [0.0, 0.1, 0.3, 0.5, 0.7, 0.9, 0.99, 0.999]
  vals = [float(diag.estimate_required_impact(q)) for q in grid]
  # strictly decreasing in |corr| (in magnitude when the quantile sum is negative, i.e. sig / power so low
  # that the 'required' impact is negative; the sign then is that of the quantile sum)
  mags = [v * (1 if tq > 0 else -1) for v in vals]
  if tq != 0 and any(not (a > b) for a, b in zip(mags, mags[1:])):
    add('monotone', 'impact-not-decreasing-in-corr', 'estimate_required_impact over |corr| grid %r = %r' % (grid, vals))
  neg = [float(diag.estimate_required_impact(-q)) for q in grid]
  if any(not util.close(a, b, rtol=1e-15) for a, b in zip(vals, neg)):
    add('symmetric', 'impact-not-symmetric-in-corr', 'estimate_required_impact(q) != estimate_required_impact(-q): %r vs %r' % (vals, neg))
  return {'nontrivial': True, 'fp': util.fp([n, m, sig, power, flevel]),
          'classes': ['n=3' if n == 3 else 'n<=5' if n <= 5 else 'n<15' if n < 15 else 'n>=15' if n < 480 else 'n>=480'],
          'counters': dict(counters), 'violations': violations[:6],
          'sample': dict(desc, required_impact=ri, tbr_scale=scale_tbr, corr=corr)}
