"""C13 — greedy search never beats the exhaustive optimum.

Oracle: the real exhaustive search run on a fresh object with equal parameters and
unbounded n_designs (full ranked feasible set), cross-checked by the C03 brute force so
that a fault of the exhaustive search is not mistaken for one of the greedy search.
"""
import collections

from mmv import probes
from mmv import searchlab as sl
from mmv import searchprops as sp
from mmv import util

PROP = 'C13'
LEVEL = 'exploration'
RULE = ('Generated panels (1-6 geos quick / 1-7 thorough), all eligibility matrices, size / geo-ratio / volume-ratio '
        'settings incl. on-bound values, no budget or share constraint, n_geos_max allowed. greedy_search on a fresh '
        'object vs exhaustive_search on another fresh object with n_designs = 100000: every greedy design must be in '
        'the exhaustive ranked set, none may score above its best, greedy must be empty when exhaustive is. The '
        'brute-force design space (C03 oracle) is computed for a third of the cases as referee. Non-trivial: greedy '
        'returned >= 1 design and the feasible set has >= 2 members; distinct by input description.')
ASSUMPTIONS = ['inputs on which either search raises are counted, not judged (C09)']
EXHAUSTIVE = {'quick': False, 'thorough': False}
MINIMA = {'quick': {'mixed_sign_cases': 8, 'low_noise_cases': 10, 'searches_after_caller_edits': 50, 'same_k_comparisons': 10, 'flat_treatment_cases': 10, 'must_include_overflow_cases': 10, 'shared_data_searches': 40, 'near_bound_cases': 18, 'dyadic_compared': 20, 'compared': 200, 'greedy_designs': 150, 'distinct_nontrivial': 80, 'referee_runs': 40},
          'thorough': {'mixed_sign_cases': 80, 'low_noise_cases': 100, 'searches_after_caller_edits': 500, 'same_k_comparisons': 100, 'flat_treatment_cases': 100, 'must_include_overflow_cases': 100, 'shared_data_searches': 400, 'near_bound_cases': 180, 'dyadic_compared': 200, 'compared': 2500, 'greedy_designs': 2000, 'distinct_nontrivial': 1000, 'referee_runs': 500}}
N = {'quick': 400, 'thorough': 3600}
CASE_TIMEOUT = {'quick': 300, 'thorough': 1200}


def n_cases(tier):
  return N[tier]


def gen_case(tier, seed, idx):
  return {'tier': tier, 'seed': seed, 'idx': idx}


def prepare(tier):
  probes.install_heap()


def run_case(spec):
  r, g = util.rngs(PROP, spec['seed'], spec['idx'])
  tier = spec['tier']
  G = r.randrange(1, 7 if tier == 'quick' else 8)
  focus = [None, 'size', 'ratio', 'volume', 'ngeos'][spec['idx'] % 5]
  dyadic = spec['idx'] % 6 == 5 and G >= 3
  if dyadic:
    # exact on-bound volume ratios: dyadic shares and a tolerance whose bound is attained exactly
    case = sl.make_case(r, g, G, focus='volume', allow=('size', 'volume'), cls='dyadic', n_dates=r.choice([16, 32, 64]),
                        elig_mode=r.choice(['none', 'mostly_ctx']), elig_extra='none')
    case['params']['volume_ratio_tolerance'] = r.choice([1.0, 1.0, 0.5, 3.0, 2.0, 7.0])
    case['params'].pop('n_pretest_max', None)
    case['params']['n_test'] = min(case['params']['n_test'], len(case['panel']['dates']) - 4)
  else:
    case = sl.make_case(r, g, G, focus=focus, allow=('size', 'ratio', 'volume', 'ngeos'),
                        cls=('near_twins' if spec['idx'] % 12 == 5 else None))       # a pair correlated above rho_max
    if spec['idx'] % 12 == 5:
      case['params']['n_designs'] = r.choice([1, 1, 2])
  counters = collections.Counter()
  ids_ = [str(i) for i in case['panel']['ids']]
  if not dyadic and spec['idx'] % 12 == 7 and G >= 3:
    # a geo with a perfectly flat response is fixed to treatment and every other geo can only be a control geo (or
    # left out): the only treatment group has an undefined correlation with every control group
    from mmv import gen as _gen  # pylint: disable=g-import-not-at-top
    k = r.randrange(G)
    case['elig_rows'] = {gid: ('t_fixed' if i == k else r.choice(['cx', 'cx', 'c_fixed'])) for i, gid in enumerate(ids_)}
    case['panel']['values'][k, :] = float(round(case['panel']['values'][k].mean())) if r.random() < 0.7 else 0.0
    case['panel']['present'][k, :] = True
    case['panel']['dups'] = None
    case['frame'] = _gen.panel_frame(case['panel'], r, shuffle=True)
    case['extra'] = {}
    for k2 in ('n_geos_max', 'treatment_geos_range', 'control_geos_range', 'geo_ratio_tolerance', 'volume_ratio_tolerance'):
      if r.random() < 0.7:
        case['params'].pop(k2, None)
    counters['flat_treatment_cases'] += 1
  elif not dyadic and spec['idx'] % 12 == 3 and G >= 3:
    # at least n_geos_max geos may not be left out (they are never dropped by the truncation)
    kt = r.randrange(1, min(3, G - 1) + 1)
    kc = r.randrange(1, min(2, G - kt) + 1)
    order = list(range(G))
    r.shuffle(order)
    rows = {}
    for pos_, i in enumerate(order):
      rows[ids_[i]] = 't_fixed' if pos_ < kt else 'c_fixed' if pos_ < kt + kc else r.choice(['cx', 'ctx', 'tx', 'ct'])
    case['elig_rows'] = rows
    case['extra'] = {}
    case['params']['n_geos_max'] = max(2, r.choice([kt, kt, kt + 1, kt + kc]))
    for k2 in ('treatment_geos_range', 'control_geos_range', 'geo_ratio_tolerance', 'volume_ratio_tolerance'):
      if r.random() < 0.7:
        case['params'].pop(k2, None)
    counters['must_include_overflow_cases'] += 1
  if (not dyadic) and spec['idx'] % 12 == 1 and G >= 3:
    # responses may be negative (net flows): one or two geos have a negative mean, the total stays well away from 0;
    # groups with negative volume on both sides have a positive, possibly in-range, volume ratio
    import numpy as np  # pylint: disable=g-import-not-at-top
    from mmv import gen as _gen  # pylint: disable=g-import-not-at-top
    pn = case['panel']
    m_ = np.where(pn['present'], pn['values'], 0.0).mean(axis=1)
    flip = r.sample(range(G), r.choice([1, 2, 2]) if G >= 4 else 1)
    new_total = float(m_.sum() - 2.0 * sum(m_[i] for i in flip))
    if abs(new_total) > 0.25 * float(np.abs(m_).sum()):
      for i in flip:
        pn['values'][i] = pn['values'][i] - 2.0 * float(pn['values'][i].mean())
      pn['present'][:] = True
      pn['dups'] = None
      pn['features'] = list(pn['features']) + ['mixed_sign']
      case['frame'] = _gen.panel_frame(pn, r, shuffle=True)
      case['params']['volume_ratio_tolerance'] = r.choice([0.5, 1.0, 3.0])
      case['params'].pop('n_geos_max', None)
      counters['mixed_sign_cases'] += 1
  low_noise = (not dyadic) and spec['idx'] % 12 == 9 and G >= 3
  if low_noise:
    # every geo follows one common factor with very little noise of its own (different amounts per geo): most
    # designs pass all tests with correlations well above rho_max, and the best ones differ only in the last entry
    import numpy as np  # pylint: disable=g-import-not-at-top
    from mmv import gen as _gen  # pylint: disable=g-import-not-at-top
    pn = case['panel']
    D_ = len(pn['dates'])
    common = np.cumsum(g.normal(0, 1.0, D_)) + 3.0 * np.sin(2 * np.pi * np.arange(D_) / 7.0)
    for i_ in range(G):
      size_ = float(np.exp(g.normal(0, 0.7))) * 100.0
      pn['values'][i_] = size_ * (10.0 + 0.5 * common + r.choice([0.002, 0.005, 0.01, 0.03]) * g.normal(0, 1.0, D_))
    pn['present'][:] = True
    pn['dups'] = None
    pn['features'] = list(pn['features']) + ['low_noise']
    case['frame'] = _gen.panel_frame(pn, r, shuffle=True)
    case['params']['n_designs'] = r.choice([1, 1, 2])
    case['params'].pop('n_geos_max', None)
    counters['low_noise_cases'] += 1
  truth = sl.Truth(case)
  desc = sl.describe(case, with_frame=False)
  violations = []
  near = (not dyadic) and spec['idx'] % 6 == 4 and G >= 3
  if near:
    # place the volume / geo-count ratio bound a few ppm inside the value of a design the greedy search returns
    # without that constraint: the design must disappear from BOTH searches alike
    kw0 = {k: v for k, v in case['params'].items() if k not in ('volume_ratio_tolerance', 'geo_ratio_tolerance')}
    probe = sl.run_search(dict(case, params=kw0), 'greedy')
    if probe['outcome'].ok and probe['designs']:
      nd = r.choice(probe['designs'])
      eps = r.choice([3e-6, 1e-6, 1e-7])
      if r.random() < 0.6:
        v = truth.share_of(nd['c']) / truth.share_of(nd['t'])
        big = max(v, 1 / v)
        if big * (1 - eps) > 1.0:
          kw0['volume_ratio_tolerance'] = big * (1 - eps) - 1.0
      else:
        big = max(len(nd['c']) / len(nd['t']), len(nd['t']) / len(nd['c']))
        if big * (1 - eps) > 1.0:
          kw0['geo_ratio_tolerance'] = big * (1 - eps) - 1.0
      case = dict(case, params=kw0)
      truth = sl.Truth(case)
      desc = sl.describe(case, with_frame=False)
      counters['near_bound_cases'] += 1
  shared = spec['idx'] % 4 == 2
  edits = spec['idx'] % 4 == 3      # results of earlier searches (objects of their own) edited in place by the caller
  grec = sl.run_search(case, 'greedy', interleave=(r if shared else None), scribble_prior=(['exhaustive'] if edits and G <= 6 else None))
  counters['shared_data_searches'] += bool(grec.get('interleaved'))
  counters['searches_after_caller_edits'] += bool(grec.get('scribbled'))
  full = dict(case, params=dict(case['params'], n_designs=100000))
  erec = sl.run_search(full, 'exhaustive')
  # the property compares the two searches on identical inputs: also with the caller's own n_designs
  erec_k = sl.run_search(case, 'exhaustive') if (spec['idx'] % 12 == 5 or low_noise) else None
  if (not grec['outcome'].ok or not erec['outcome'].ok or grec['designs'] is None or erec['designs'] is None):
    tag = 'greedy:%s exhaustive:%s' % (grec['outcome'].exc_type, erec['outcome'].exc_type)
    return {'nontrivial': False, 'fp': util.fp(desc), 'classes': ['raised'], 'counters': {'search_raised': 1},
            'outcome': tag, 'violations': [], 'sample': None}
  par = sl.shadow_params(case)
  v, info = sp.c13_clauses(case, truth, grec, erec, par)
  violations += v
  if erec_k is not None and erec_k['outcome'].ok and erec_k['designs'] and grec['designs']:
    counters['same_k_comparisons'] += 1
    best_k = erec_k['designs'][0]['score']
    for pos_, d_ in enumerate(grec['designs']):
      if not sl.has_nan(d_['score']) and not sl.has_nan(best_k) and tuple(best_k) < tuple(d_['score']) and not sp._near(best_k, d_['score']):
        violations.append(sp.V('beats', 'greedy:beats-exhaustive-best',
                               'with n_designs=%r greedy design #%d T=%s C=%s scores %r > the exhaustive search\'s best %r' % (
                                   case['params'].get('n_designs', 1), pos_, d_['t'], d_['c'], d_['score'], best_k)))
        break
  counters['compared'] += 1
  counters['dyadic_compared'] += dyadic
  counters['greedy_designs'] += len(grec['designs'])
  counters['exhaustive_ranked'] += len(erec['designs'])
  if spec['idx'] % 3 == 0 and erec['admitted'] is not None and len(erec['admitted']) <= 7:
    tfull = sl.Truth(full)
    v3, info3 = sp.c03_clauses(full, tfull, erec, sl.shadow_params(full))
    counters['referee_runs'] += 1
    for x in v3:
      x['mech'] = 'referee:' + x['mech']
      x['detail'] = '[exhaustive search vs brute force] ' + x['detail']
    violations += v3
  nontrivial = len(grec['designs']) >= 1 and len(erec['designs']) >= 2
  return {'nontrivial': nontrivial, 'fp': util.fp(desc), 'classes': ['G=%d' % G, 'focus:%s' % focus],
          'counters': dict(counters),
          'outcome': 'greedy=%d exhaustive=%s' % (min(2, len(grec['designs'])), '0' if not erec['designs'] else '>0'),
          'violations': violations[:10],
          'sample': {'case': desc, 'greedy': [[d['t'], d['c'], list(d['score'])] for d in grec['designs'][:2]],
                     'exhaustive_ranked': len(erec['designs'])},
          'case': sl.describe(case) if violations else None}
