"""Search laboratory: materialises a search case, runs the real searches at the client
boundary with probes on, normalises results, and provides the independent oracles
(raw-frame pivot, admitted-set model, brute-force design space, per-design recomputation).
"""
import dataclasses
import fractions
import itertools
import math

import numpy as np
import pandas as pd

from mmv import bootstrap
from mmv import gen
from mmv import probes
from mmv import util

Fraction = fractions.Fraction
RTOL = 1e-9


# ------------------------------------------------------------------------------ case

def make_case(r, g, n_geos, cls=None, elig_mode=None, focus=None, allow=None, id_style=None,
              n_dates=None, elig_extra=None, date_style=None):
  """Materialises one search case from the RNGs. Returns a dict of concrete inputs."""
  cls = cls or gen.weighted(r, [('continuous', 6), ('duplicates', 1), ('integer', 1), ('gappy', 1.5)])
  id_style = id_style or gen.pick(r, ['str', 'int', 'intmix', 'numstr'])
  if n_dates is None:
    n_dates = gen.weighted(r, [(r.randrange(8, 20), 2), (r.randrange(20, 60), 4), (r.randrange(60, 121), 1.5)])
  panel = gen.gen_panel(r, g, n_geos, n_dates, cls=cls, id_style=id_style,
                        date_style=date_style or gen.pick(r, ['ts', 'ts', 'iso']))
  elig_mode = elig_mode or gen.weighted(r, [('none', 2), ('mixed', 5), ('mostly_ctx', 3), ('ctx', 0.5)])
  rows = gen.gen_elig_rows(r, panel['ids'], elig_mode)
  extra = {}
  if rows is not None:
    u = r.random() if elig_extra is None else (0.0 if elig_extra == 'subset' else 0.5 if elig_extra == 'superset' else 1.0)
    if u < 0.15 and len(rows) > 2:       # table is a strict subset of the data's geos
      drop = r.choice(sorted(rows))
      rows = {k: v for k, v in rows.items() if k != drop}
      extra['subset_dropped'] = drop
    elif u < 0.3 or elig_extra == 'superset':  # table has an extra, excludable geo
      rows = dict(rows)
      rows['ZZextra'] = r.choice(['x_fixed', 'cx', 'tx', 'ctx'])
      extra['extra_geo'] = 'ZZextra'
      if len(rows) > 3 and r.random() < 0.4:    # ... and at the same time omits a geo that is in the data
        drop = r.choice(sorted(k for k in rows if k != 'ZZextra'))
        rows = {k: v for k, v in rows.items() if k != drop}
        extra['subset_dropped'] = drop
  kw = gen.gen_params(r, panel, rows, focus=focus,
                      allow=allow or ('size', 'ratio', 'volume', 'share', 'budget', 'ngeos'))
  frame = gen.panel_frame(panel, r, shuffle=True)
  if r.random() < 0.25:
    # an unrelated extra column with missing values (e.g. spend not reported for some geo-days)
    frame['cost'] = [float('nan') if r.random() < 0.3 else 1.0 for _ in range(len(frame))]
  case = {'panel': panel, 'elig_rows': rows, 'params': kw, 'frame': frame, 'extra': extra,
          'elig_index_keyed': r.random() < 0.3, 'elig_seed': r.randrange(1 << 30),
          'preset_geo_index': r.random() < 0.2}
  case['prior_long_window'] = (r.random() < 0.15 and kw.get('n_pretest_max', 90) < n_dates)
  case['prior_sibling'] = one_field_variant(r, kw) if r.random() < 0.2 else None
  return case


def one_field_variant(r, kw):
  """{field: value}: the parameters of another search object that was built on the same data object earlier and
  differs from the object under test in exactly one statistical setting."""
  f = r.choice(['flevel', 'flevel', 'sig_level', 'power_level', 'rho_max', 'iroas', 'min_corr'])
  options = {'flevel': [0.9, 0.95, 0.99, 0.8], 'sig_level': [0.9, 0.8, 0.95, 0.6], 'power_level': [0.8, 0.5, 0.9, 0.7],
             'rho_max': [0.995, 0.99, 0.999], 'min_corr': [0.8, 0.85, 0.9, 0.95]}
  defaults = {'flevel': 0.9, 'sig_level': 0.9, 'power_level': 0.8, 'rho_max': 0.995, 'min_corr': 0.8}
  if f == 'iroas':
    return {'iroas': kw['iroas'] * 2.0 if kw['iroas'] > 0 else 1.0}
  cur = kw.get(f, defaults[f])
  return {f: r.choice([v for v in options[f] if v != cur])}


def describe(case, with_frame=True):
  """JSON-able description of a case (for samples and replay files)."""
  p = case['panel']
  d = {'geos': [str(i) for i in p['ids']], 'id_style': p['id_style'], 'panel_class': p['cls'],
       'n_dates': len(p['dates']), 'first_date': str(p['dates'][0]), 'features': p['features'],
       'eligibility': case['elig_rows'], 'params': util.jsonable(case['params']), 'extra': case['extra'],
       'preset_geo_index': bool(case.get('preset_geo_index')),
       'prior_long_window': bool(case.get('prior_long_window')), 'prior_sibling': case.get('prior_sibling')}
  if with_frame and len(p['ids']) * len(p['dates']) <= 400:
    d['values'] = [[round(float(v), 6) for v in row] for row in p['values']]
  return d


def build(case, mods=None, params_override=None, plain=False):
  """Fresh (data, parameters, matched-markets) objects from the concrete inputs. plain=True leaves out everything
  that happened to the data object before it reached the object under test (reference for history checks)."""
  if mods is None:
    dmod, pmod, emod, smod = (bootstrap.mm('tbrmmdata'), bootstrap.mm('tbrmmdesignparameters'),
                              bootstrap.mm('geoeligibility'), bootstrap.mm('tbrmatchedmarkets'))
  else:
    dmod, pmod, emod, smod = mods.tbrmmdata, mods.tbrmmdesignparameters, mods.geoeligibility, mods.tbrmatchedmarkets
  import random  # pylint: disable=g-import-not-at-top
  elig = None
  if case['elig_rows'] is not None:
    er = random.Random(case['elig_seed'])
    edf = gen.elig_frame(case['elig_rows'], er, index_keyed=case['elig_index_keyed'])
    elig = emod.GeoEligibility(edf)
  data = dmod.TBRMMData(case['frame'].copy(), 'response', elig)
  if case.get('prior_sibling') and not plain:
    # another search object, differing in one statistical setting, was built on this data object (and used) first
    try:
      sib = smod.TBRMatchedMarkets(data, pmod.TBRMMDesignParameters(**dict(params_override or case['params'], **case['prior_sibling'])))
      _ = sib.geos_within_constraints
      if len(case['panel']['ids']) <= 8:
        sib.greedy_search()
    except Exception:  # pylint: disable=broad-except
      pass
  if case.get('prior_long_window') and not plain:
    # the data object was used before by another search object with a LONGER window (and searched), then handed
    # to the object under test, whose constructor cuts the table to its own, shorter window
    kw_long = dict(params_override or case['params'])
    kw_long['n_pretest_max'] = 10 ** 6
    for k_ in ('budget_range', 'treatment_share_range', 'n_geos_max'):
      kw_long.pop(k_, None)
    try:
      first = smod.TBRMatchedMarkets(data, pmod.TBRMMDesignParameters(**kw_long))
      first.greedy_search()
    except Exception:  # pylint: disable=broad-except
      pass
  if case.get('preset_geo_index') and not plain:
    # a caller may install a geo index on the data object before handing it to the search object
    data.geo_index = [gid for gid in data.df.index if gid in data.assignable]
  par = pmod.TBRMMDesignParameters(**(params_override or case['params']))
  mm = smod.TBRMatchedMarkets(data, par)
  return data, par, mm


# ------------------------------------------------------------------------------ truth (raw-frame pivot)

class Truth:
  """Everything the oracles need, computed from the raw inputs with plain numpy/python."""

  def __init__(self, case):
    p = case['panel']
    kw = case['params']
    nan_geos = set(case.get('nan_geos') or [])     # geos whose every response is NaN: absent from the canonical table
    all_ids = [str(i) for i in p['ids']]
    keep = [k for k, gid in enumerate(all_ids) if gid not in nan_geos]
    self.ids = [all_ids[k] for k in keep]
    vals = np.where(p['present'], p['values'], 0.0)[keep]
    self.full = {gid: vals[i] for i, gid in enumerate(self.ids)}
    means = {gid: math.fsum(self.full[gid]) / len(p['dates']) for gid in self.ids}
    tot = math.fsum(means.values())
    self.means = means
    self.share = {gid: means[gid] / tot for gid in self.ids}
    self.n_pretest_max = kw.get('n_pretest_max', 90)
    self.window = {gid: self.full[gid][-self.n_pretest_max:] for gid in self.ids}
    self.n = len(next(iter(self.window.values())))
    self.n_test = kw['n_test']
    self.iroas = kw['iroas']
    self.flevel = kw.get('flevel', 0.9)
    self.sig = kw.get('sig_level', 0.9)
    self.power = kw.get('power_level', 0.8)
    self.rho_max = kw.get('rho_max', 0.995)
    self.kw = kw
    rows = case['elig_rows']
    if rows is None:
      self.row = {gid: 'ctx' for gid in self.ids}
    else:
      self.row = {gid: rows[gid] for gid in self.ids if gid in rows}
    self.elig_all = dict(rows) if rows is not None else dict(self.row)

  def series(self, geos):
    out = np.zeros(self.n)
    for gid in geos:
      out = out + self.window[gid]
    return out

  def share_of(self, geos):
    return math.fsum(self.share[gid] for gid in geos)

  def opt_impact(self, geos):
    return gen.ref_optimistic_impact(self.series(geos), self.rho_max, self.n_test,
                                     self.flevel, self.sig, self.power)

  def req_impact(self, tg, cg):
    return gen.ref_required_impact(self.series(tg), self.series(cg), self.n_test,
                                   self.flevel, self.sig, self.power)

  # ---- admitted-set model (documented pre-selection)
  def admitted_model(self):
    """Returns (admitted set or None if ambiguous, details)."""
    kw = self.kw
    assignable = {gid for gid, c in self.row.items() if c != 'x_fixed'}
    must = {gid for gid, c in self.row.items() if gen.ROWS[c][2] == 0}
    ambiguous = False
    too_large = set()
    if kw.get('treatment_share_range') is not None:
      hi = kw['treatment_share_range'][1]
      for gid in assignable:
        s = self.share[gid]
        if abs(s - hi) <= RTOL * hi:
          ambiguous = True
        if s > hi:
          too_large.add(gid)
    over = set()
    imp = {}
    for gid in self.ids:
      y = self.window[gid]
      imp[gid] = gen.ref_optimistic_impact(y, self.rho_max, self.n_test, self.flevel, self.sig, self.power)
    if kw.get('budget_range') is not None:
      mx = kw['budget_range'][1] * self.iroas
      for gid in assignable:
        if abs(imp[gid] - mx) <= RTOL * max(mx, 1e-300):
          ambiguous = True
        if imp[gid] > mx:
          over.add(gid)
    geos = (assignable - too_large - over) | must
    nmax = kw.get('n_geos_max')
    truncated = False
    if nmax is not None and len(geos) > nmax:
      truncated = True
      # must-include geos are never dropped; the remaining places go to the geos with the
      # highest single-geo impact
      order = sorted(geos & must, key=lambda gid: -imp[gid]) + sorted(geos - must, key=lambda gid: -imp[gid])
      keep = max(nmax, len(geos & must))
      if keep < len(order) and keep > len(geos & must):
        kth, nxt = imp[order[keep - 1]], imp[order[keep]]
        if abs(kth - nxt) <= RTOL * max(abs(kth), 1e-300):
          ambiguous = True
      geos = set(order[:keep])
    return (None if ambiguous else geos), {'assignable': assignable, 'must': must,
                                           'too_large': too_large, 'over': over,
                                           'truncated': truncated, 'impact': imp}


# ------------------------------------------------------------------------------ normalised designs

def norm_design(d):
  """Normalises a returned design into plain data."""
  sc = d.score.score
  diag = d.diag
  out = {
      't': sorted(str(x) for x in d.treatment_geos),
      'c': sorted(str(x) for x in d.control_geos),
      't_raw_types': sorted({type(x).__name__ for x in d.treatment_geos} | {type(x).__name__ for x in d.control_geos}),
      'score': tuple(float(v) for v in sc),
  }
  if diag is not None:
    out['y'] = np.array(diag.y, dtype=float)
    out['x'] = None if diag.x is None else np.array(diag.x, dtype=float)
    out['corr'] = None if diag.corr is None else float(diag.corr)
    out['impact'] = None if diag.required_impact is None else float(diag.required_impact)
    out['tests'] = (diag.corr_test, diag.aatest.test_ok, diag.bbtest.test_ok, diag.dwtest.test_ok)
  return out


def design_key(nd):
  return (tuple(nd['t']), tuple(nd['c']))


def snapshot_params(par):
  return dataclasses.asdict(par)


def frame_fingerprint(df):
  return (tuple(df.columns), tuple(map(str, df.dtypes)), len(df),
          util.fp([list(map(str, df[c].tolist())) for c in df.columns]))


def alt_params(case, r):
  """Parameters for a *second* matched-markets object on the same data object: same window and test
  length, but geo-level constraints that admit a different set of geos (so its geo index differs)."""
  kw = dict(case['params'])
  G = len(case['panel']['ids'])
  vals = np.where(case['panel']['present'], case['panel']['values'], 0.0)
  shares = vals.mean(axis=1) / vals.mean(axis=1).sum()
  had = [k for k in ('n_geos_max', 'treatment_share_range', 'budget_range') if kw.get(k) is not None]
  for k in ('n_geos_max', 'treatment_share_range', 'budget_range'):
    kw.pop(k, None)
  u = r.random()
  if had and u < 0.7:
    return kw            # the second object admits a superset of geos (no geo-level constraint at all)
  u = r.random()
  if u < 0.4 and G >= 3:
    kw['n_geos_max'] = r.randrange(2, G)
  elif u < 0.8:
    cut = float(sorted(shares)[-1])
    kw['treatment_share_range'] = (1e-7, min(0.999, cut * 0.999))     # drops the largest geo
  else:
    kw['budget_range'] = (0.0, 1e-9)                                    # admits (almost) nothing
  return kw


_OPAQUE = ('TBRMMDesignParameters', 'TBRMMData', 'TBRMatchedMarkets', 'GeoEligibility', 'DataFrame', 'Series', 'Index')


def scribble(obj, depth=0, seen=None):
  """A caller editing, in place, what a query or search RETURNED to it (arrays rescaled for a plot, sets and lists
  emptied or re-used as scratch space). Objects the caller passed in (parameters, data, eligibility) are left alone.
  Returns the number of containers edited."""
  seen = set() if seen is None else seen
  if id(obj) in seen or depth > 7 or obj is None:
    return 0
  seen.add(id(obj))
  name = type(obj).__name__
  if name in _OPAQUE or isinstance(obj, (str, bytes, int, float, bool, complex, type)) or callable(obj):
    return 0
  if isinstance(obj, np.ndarray):
    if obj.size and obj.flags.writeable and obj.dtype.kind in 'fiu':
      if obj.dtype.kind == 'f':
        obj *= 0.25
        obj += 1.0
      else:
        obj[...] = 0
      return 1
    return 0
  n = 0
  if isinstance(obj, (set,)):
    obj.clear()
    obj.add('__edited_by_caller__')
    return 1
  if isinstance(obj, dict):
    for v in list(obj.values()):
      n += scribble(v, depth + 1, seen)
    return n
  if isinstance(obj, (list, tuple)):
    for v in list(obj):
      n += scribble(v, depth + 1, seen)
    if isinstance(obj, list):
      del obj[:]
      n += 1
    return n
  d = getattr(obj, '__dict__', None)
  if isinstance(d, dict):
    for v in list(d.values()):
      n += scribble(v, depth + 1, seen)
  return n


def run_search(case, which, mods=None, interleave=None, prior_calls=None, prior_long_window=False, scribble_prior=None,
               edit_query_results=False):
  """Runs one search on fresh objects at the client boundary.

  interleave: optional random.Random. When given, the data object is *shared* with a second matched-markets
  object built with alt_params(); the sequence  A.search -> B.search -> A.search  is executed and the last
  call is the one recorded and judged (its answer must be what A gives on its own).

  Returns dict: outcome (util.Outcome), designs (normalised list, when returned),
  admitted (observed geos_within_constraints), events (probe sinks), par_before/after,
  frame_changed.
  """
  probes.reset()
  frame_before = frame_fingerprint(case['frame'])
  scribbled = 0
  if scribble_prior is not None:
    # earlier in the same process: the same searches on objects of their own, whose RESULTS the caller then edits
    # in place; nothing of that may leak into the judged search
    for pw in scribble_prior:
      b0 = util.call(build, case, mods)
      if b0.ok:
        res0 = util.call(getattr(b0.value[2], pw + '_search'))
        if res0.ok:
          scribbled += scribble(res0.value)
  built = util.call(build, case, mods)
  rec = {'which': which, 'build': built, 'designs': None, 'admitted': None, 'scribbled': scribbled}
  if not built.ok:
    rec['outcome'] = built
    rec['stage'] = 'build'
    return rec
  data, par, mm = built.value
  rec['objs'] = (data, par, mm)
  adm = util.call(lambda: set(mm.geos_within_constraints))
  rec['admitted'] = adm.value if adm.ok else None
  rec['par_before'] = snapshot_params(par)
  rec['query_edits'] = 0
  if edit_query_results:
    # the caller looks at the geo-level query results first and uses the sets it was handed as scratch space
    for op in ('geos_must_include', 'geos_too_large', 'geos_over_budget', 'geos_within_constraints'):
      raw = util.call(getattr, mm, op)
      if raw.ok and isinstance(raw.value, set):
        raw.value.clear()
        raw.value.add('__edited_by_caller__')
        rec['query_edits'] += 1
  if prior_calls:
    # earlier searches on the SAME object (their results are discarded): the judged call must not depend on them
    for pc in prior_calls:
      util.call(getattr(mm, pc + '_search'))
  rec['interleaved'] = False
  if interleave is not None:
    smod = bootstrap.mm('tbrmatchedmarkets') if mods is None else mods.tbrmatchedmarkets
    pmod = bootstrap.mm('tbrmmdesignparameters') if mods is None else mods.tbrmmdesignparameters
    other = util.call(lambda: smod.TBRMatchedMarkets(data, pmod.TBRMMDesignParameters(**alt_params(case, interleave))))
    if other.ok:
      first = util.call(getattr(mm, which + '_search'))
      small = len(case['panel']['ids']) <= 6
      util.call(getattr(other.value, (interleave.choice(['exhaustive', 'greedy']) if small else 'greedy') + '_search'))
      rec['interleaved'] = True
      rec['first_outcome'] = first
  probes.reset()
  out = util.call(getattr(mm, which + '_search'))
  rec['outcome'] = out
  rec['stage'] = 'search'
  rec['events'] = {k: list(v) for k, v in probes.EVENTS.items()}
  rec['alarms'] = list(probes.ALARMS)
  rec['par_after'] = snapshot_params(par)
  rec['frame_changed'] = frame_fingerprint(case['frame']) != frame_before
  if out.ok:
    nd = util.call(lambda: [norm_design(d) for d in out.value])
    if nd.ok:
      rec['designs'] = nd.value
    else:
      rec['norm_error'] = nd
  return rec


# ------------------------------------------------------------------------------ legality (C01) and constraints (C02)

def legality_violations(truth, nd, admitted=None):
  """Clauses of C01 for one normalised design, from the generator's own rows."""
  out = []
  T, C = set(nd['t']), set(nd['c'])
  if not T:
    out.append('empty treatment group')
  if not C:
    out.append('empty control group')
  if T & C:
    out.append('groups overlap: %s' % sorted(T & C))
  for gid in sorted(T | C):
    if gid not in truth.full:
      out.append('geo %r is not in the data' % gid)
  for gid in sorted(T):
    cls = truth.row.get(gid)
    if cls is None:
      out.append('treatment geo %r has no eligibility row' % gid)
    elif gen.ROWS[cls][1] == 0:
      out.append('treatment geo %r is not treatment-eligible (%s)' % (gid, cls))
  for gid in sorted(C):
    cls = truth.row.get(gid)
    if cls is None:
      out.append('control geo %r has no eligibility row' % gid)
    elif gen.ROWS[cls][0] == 0:
      out.append('control geo %r is not control-eligible (%s)' % (gid, cls))
  for gid, cls in sorted(truth.elig_all.items()):
    # every row of the caller's table counts, also rows of geos that have no usable data
    if gen.ROWS[cls][2] == 0 and gid not in T and gid not in C:
      out.append('geo %r (%s) may not be excluded but is in neither group' % (gid, cls))
    if cls == 'x_fixed' and (gid in T or gid in C):
      out.append('must-exclude geo %r appears in a group' % gid)
  return out


def ratio_bounds(tol):
  hi = Fraction(1) + Fraction(tol)
  return 1 / hi, hi


def constraint_report(truth, nd, admitted, exhaustive):
  """Evaluates every specified numeric constraint for a design, from the raw inputs.

  Returns list of (name, status, detail) with status in {'ok', 'violated', 'ambiguous'}.
  """
  kw = truth.kw
  T, C = nd['t'], nd['c']
  rep = []

  def interval(name, value, lo, hi, rtol=RTOL):
    # each bound is compared with a tolerance relative to ITS OWN magnitude (a huge upper bound must not blur the
    # comparison with a small lower one)
    tlo = rtol * max(abs(lo), abs(value), 1e-300)
    thi = rtol * max(abs(hi), abs(value), 1e-300)
    if value < lo - tlo or value > hi + thi:
      rep.append((name, 'violated', '%s=%.12g outside [%.12g, %.12g]' % (name, value, lo, hi)))
    elif value < lo + tlo or value > hi - thi:
      rep.append((name, 'ok-on-edge', ''))
    else:
      rep.append((name, 'ok', ''))

  if kw.get('treatment_geos_range') is not None:
    lo, hi = kw['treatment_geos_range']
    rep.append(('treatment_geos_range', 'ok' if lo <= len(T) <= hi else 'violated',
                '|T|=%d not in [%s, %s]' % (len(T), lo, hi)))
  if kw.get('control_geos_range') is not None:
    lo, hi = kw['control_geos_range']
    rep.append(('control_geos_range', 'ok' if lo <= len(C) <= hi else 'violated',
                '|C|=%d not in [%s, %s]' % (len(C), lo, hi)))
  if kw.get('geo_ratio_tolerance') is not None and T:
    lo, hi = ratio_bounds(kw['geo_ratio_tolerance'])
    ratio = Fraction(len(C), len(T))
    if lo <= ratio <= hi:
      rep.append(('geo_ratio_tolerance', 'ok', ''))
    elif min(abs(float(ratio - lo)), abs(float(ratio - hi))) < 1e-12:
      rep.append(('geo_ratio_tolerance', 'ambiguous', ''))
    else:
      rep.append(('geo_ratio_tolerance', 'violated', '|C|/|T|=%s outside [%s, %s]' % (ratio, float(lo), float(hi))))
  if kw.get('volume_ratio_tolerance') is not None and T and C:
    tol = kw['volume_ratio_tolerance']
    interval('volume_ratio_tolerance', truth.share_of(C) / truth.share_of(T), 1 / (1 + tol), 1 + tol)
  if kw.get('treatment_share_range') is not None and T:
    lo, hi = kw['treatment_share_range']
    s_all = truth.share_of(T)
    readings = [s_all]
    if admitted:
      readings.append(s_all / truth.share_of(admitted))
    sub = []
    for s in readings:
      before = len(rep)
      interval('treatment_share_range', s, lo, hi)
      sub.append(rep.pop(before))
    # either documented reading may be in range
    best = sorted(sub, key=lambda e: {'ok': 0, 'ok-on-edge': 1, 'violated': 2}[e[1]])[0]
    if best[1] == 'violated':
      best = ('treatment_share_range', 'violated',
              'share vs all geos %.9g, vs admitted geos %.9g; neither in [%.9g, %.9g]' % (
                  readings[0], readings[-1], lo, hi))
    rep.append(best)
  if kw.get('budget_range') is not None and T and C:
    lo, hi = kw['budget_range']
    x = truth.series(C)
    if np.ptp(x) == 0 or np.ptp(truth.series(T)) == 0:
      rep.append(('budget_range', 'ambiguous', 'constant series'))
    else:
      budget = truth.req_impact(T, C) / truth.iroas if truth.iroas > 0 else float('inf')
      # the required impact is built from standard deviations: on series whose level dwarfs their variation the
      # (two-pass) s.d. itself is only known to about eps * level / s.d. - in the library as in this oracle
      y_ = truth.series(T)
      kap = max(abs(float(np.mean(x))) / float(np.std(x)), abs(float(np.mean(y_))) / float(np.std(y_)))
      # ... and for a nearly collinear pair the library's sqrt(1 - corr^2) is only known to about eps / (1 - corr^2)
      c_ = float(np.corrcoef(x, y_)[0, 1])
      interval('budget_range', budget, lo, hi, rtol=RTOL + 1e-14 * kap + 1e-15 / max(1e-300, 1.0 - c_ * c_))
  return rep


# ------------------------------------------------------------------------------ per-design recomputation (C04)

def recompute(truth, nd, par, budget_scoring=False):
  """Pristine recomputation of diagnostics and score for a design from its reported IDs."""
  sh = bootstrap.shadow()
  y = truth.series(nd['t'])
  x = truth.series(nd['c'])
  diag = sh.tbrmmdiagnostics.TBRMMDiagnostics(y, par)
  diag.x = x
  score = sh.tbrmmscore.TBRMMScore(diag).score
  score = tuple(float(v) for v in score)
  if budget_scoring and truth.kw.get('budget_range') is not None:
    score = score[:5] + (truth.kw['budget_range'][1] / float(diag.required_impact),)
  return {'y': y, 'x': x, 'corr': float(diag.corr), 'impact': float(diag.required_impact),
          'tests': (diag.corr_test, diag.aatest.test_ok, diag.bbtest.test_ok, diag.dwtest.test_ok),
          'score': score, 'diag': diag}


def shadow_params(case):
  sh = bootstrap.shadow()
  return sh.tbrmmdesignparameters.TBRMMDesignParameters(**case['params'])


def score_knife_edge(rc):
  """True when a discrete score entry of a recomputed design is within rounding of flipping."""
  diag = rc['diag']
  corr = rc['corr']
  if not math.isfinite(corr):
    return True
  frac = abs(corr * 100 - math.floor(corr * 100) - 0.5)
  if frac < 1e-7:
    return True
  if abs(corr - diag._par.min_corr) < 1e-10:
    return True
  dw = diag.dwtest.dwstat
  if not math.isfinite(dw) or min(abs(dw - 1.5), abs(dw - 2.5)) < 1e-9:
    return True
  bb = diag.bbtest
  if bb.abscumresid is not None:
    gap = np.abs(np.asarray(bb.abscumresid) - np.asarray(bb.bounds))
    if gap.size and float(gap.min()) < 1e-9 * max(1.0, float(np.max(bb.bounds))):
      return True
  aa = diag.aatest
  if aa.bounds is not None:
    lo, hi = aa.bounds
    scale = max(abs(lo), abs(hi), 1e-300)
    if min(abs(lo), abs(hi)) < 1e-9 * scale:
      return True
    if aa.prob is not None and abs(aa.prob - 0.2) < 1e-9:
      return True
  return False


# ------------------------------------------------------------------------------ brute force (C03, C11, C13)

def enumerate_assignments(truth, admitted, kw=None, check_sizes=True):
  """All (T, C) pairs over admitted geos respecting rows, size ranges, geo ratio; both
  groups non-empty. Returns (pairs, ambiguous_pairs)."""
  kw = truth.kw if kw is None else kw
  geos = sorted(admitted)
  opts = []
  for gid in geos:
    c, t, x = gen.ROWS[truth.row[gid]]
    o = []
    if c:
      o.append('C')
    if t:
      o.append('T')
    if x:
      o.append('X')
    opts.append(o)
  tr = kw.get('treatment_geos_range')
  cr = kw.get('control_geos_range')
  gt = kw.get('geo_ratio_tolerance')
  if gt is not None:
    rlo, rhi = ratio_bounds(gt)
  pairs, amb = [], []
  for combo in itertools.product(*opts):
    T = tuple(gid for gid, a in zip(geos, combo) if a == 'T')
    C = tuple(gid for gid, a in zip(geos, combo) if a == 'C')
    if not T or not C:
      continue
    if check_sizes:
      if tr is not None and not tr[0] <= len(T) <= tr[1]:
        continue
      if cr is not None and not cr[0] <= len(C) <= cr[1]:
        continue
      if gt is not None:
        ratio = Fraction(len(C), len(T))
        if not rlo <= ratio <= rhi:
          if min(abs(float(ratio - rlo)), abs(float(ratio - rhi))) < 1e-12:
            amb.append((T, C))
          continue
    pairs.append((T, C))
  return pairs, amb


def admissible_treatment_groups(truth, admitted):
  """All treatment groups the enumeration may visit: t_fixed subset of S subset of t-eligible,
  size within the specified treatment size range (if any)."""
  geos = sorted(admitted)
  fixed = [gid for gid in geos if truth.row[gid] == 't_fixed']
  vary = [gid for gid in geos if gen.ROWS[truth.row[gid]][1] == 1 and truth.row[gid] != 't_fixed']
  tr = truth.kw.get('treatment_geos_range')
  out = []
  for k in range(len(vary) + 1):
    for sub in itertools.combinations(vary, k):
      S = tuple(sorted(fixed + list(sub)))
      if not S:
        continue
      if tr is not None and not tr[0] <= len(S) <= tr[1]:
        continue
      out.append(S)
  return out


def brute_force(truth, admitted, par, exhaustive=True):
  """The feasible design space with scores, per the exhaustive search's documented reading.

  Returns dict: feasible (list of dict t, c, score, omittable, ambiguous), n_assignments.
  """
  kw = truth.kw
  pairs, amb_pairs = enumerate_assignments(truth, admitted)
  br = kw.get('budget_range')
  sr = kw.get('treatment_share_range')
  vt = kw.get('volume_ratio_tolerance')
  # optimistic budgets of admissible treatment groups (for the omission clause)
  opt_out = {}
  if br is not None:
    for S in admissible_treatment_groups(truth, admitted):
      y = truth.series(S)
      if np.ptp(y) == 0:
        opt_out[S] = 'amb'
        continue
      b = truth.opt_impact(S) / truth.iroas if truth.iroas > 0 else float('inf')
      tol = RTOL * max(abs(b), br[1], 1e-300)
      if b > br[1] + tol or b < br[0] - tol:
        opt_out[S] = 'out'
      elif b > br[1] - tol or b < br[0] + tol:
        opt_out[S] = 'amb'
      else:
        opt_out[S] = 'in'
  if sr is not None:
    # a sub-group that (clearly) fails the treatment share range is not an admissible treatment group: its budget
    # never licenses the omission of a larger group
    def share_admissible(S):
      s = truth.share_of(S)
      tol = RTOL * max(s, sr[1])
      return not (s > sr[1] + tol or s < sr[0] - tol)
    opt_out = {S: v for S, v in opt_out.items() if share_admissible(S)}
  out_sets = [set(S) for S, v in opt_out.items() if v != 'in']
  feasible = []
  unscorable = []
  for T, C in pairs + amb_pairs:
    ambiguous = (T, C) in set(amb_pairs) if amb_pairs else False
    nd = {'t': list(T), 'c': list(C)}
    rep = constraint_report(truth, nd, admitted, exhaustive=True)
    bad = False
    for name, status, _ in rep:
      if name == 'treatment_share_range':
        continue          # exhaustive reading handled below
      if status == 'violated':
        bad = True
      elif status in ('ambiguous', 'ok-on-edge') and name in ('volume_ratio_tolerance', 'budget_range'):
        ambiguous = True
      elif status == 'ambiguous':
        ambiguous = True
    if bad:
      continue
    if sr is not None:
      s = truth.share_of(T)
      tol = RTOL * max(s, sr[1])
      if s > sr[1] + tol or s < sr[0] - tol:
        continue
      if s > sr[1] - tol or s < sr[0] + tol:
        ambiguous = True
    x, y = truth.series(C), truth.series(T)
    if np.ptp(x) == 0 or np.ptp(y) == 0:
      ambiguous = True
    try:
      rc = recompute(truth, nd, par, budget_scoring=True)
    except ValueError:
      # e.g. perfectly correlated twin series: the diagnostics refuse the pair; neither demanded nor forbidden
      unscorable.append((T, C))
      continue
    if score_knife_edge(rc):
      ambiguous = True
    omittable = False
    if br is not None:
      Ts = set(T)
      for S in out_sets:
        if S <= Ts:
          omittable = True
          break
    feasible.append({'t': list(T), 'c': list(C), 'score': rc['score'], 'omittable': omittable,
                     'ambiguous': ambiguous, 'impact': rc['impact']})
  return {'feasible': feasible, 'n_assignments': len(pairs), 'n_ambiguous_pairs': len(amb_pairs),
          'unscorable': unscorable}


def score_lt(a, b):
  return tuple(a) < tuple(b)


def has_nan(score):
  return any(isinstance(v, float) and math.isnan(v) for v in score)
