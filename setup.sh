#!/bin/bash
# Offline setup: put icontract beside the repository's interpreter (into /verif/.deps).
here="$(cd "$(dirname "$0")" && pwd)"
cd "$here"
mkdir -p .deps evidence .work
if ! PYTHONPATH="$here/.deps" /venv/bin/python -c "import icontract" 2>/dev/null; then
  PIP_NO_INDEX=1 /venv/bin/pip install --quiet --no-index --find-links /opt/veriftools/wheels \
      --target "$here/.deps" icontract asttokens typing_extensions six 2>&1 | grep -v -i warning || true
fi
PYTHONPATH="$here/.deps" /venv/bin/python -c "import icontract; print('icontract', icontract.__version__)"
