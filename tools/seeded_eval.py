#!/venv/bin/python
"""Confirms and evaluates the changes a seeding sub-agent left in /tmp/wt/<Cxx>/out.

For each patchN.diff + demoN.py: (1) patch applies to a clean scratch worktree of /repo HEAD and touches only
library source; (2) demo exits 0 on the clean tree and non-zero with the patch; (3) the pinned suite result is
unchanged; (4) the property's check (plus --also) is run against the scratch tree via MMV_REPO_DIR.
Kept changes are stored as /verif/seeded/<Cxx>-<N>/ {patch.diff, demo.py, meta.json}.

Usage: seeded_eval.py C17 [--also C03,C11] [--tier quick] [--only 1]
"""
import argparse, json, os, shutil, subprocess, sys, tempfile, time

HERE = os.path.dirname(os.path.dirname(os.path.abspath(__file__)))


def run(cmd, **kw):
  return subprocess.run(cmd, stdout=subprocess.PIPE, stderr=subprocess.STDOUT, text=True, **kw)


def scratch_tree():
  d = tempfile.mkdtemp(prefix='mmv-scratch-', dir='/tmp')
  os.rmdir(d)
  r = run(['git', '-C', '/repo', 'worktree', 'add', '--detach', d, 'HEAD'])
  assert r.returncode == 0, r.stdout
  return d


def drop(d):
  run(['git', '-C', '/repo', 'worktree', 'remove', '--force', d])
  shutil.rmtree(d, ignore_errors=True)
  run(['git', '-C', '/repo', 'worktree', 'prune'])


def demo(tree, path):
  env = dict(os.environ, PYTHONPATH=tree, MPLBACKEND='Agg')
  try:
    r = run(['/venv/bin/python', '-W', 'ignore', path], cwd=tree, env=env, timeout=900)
    return r.returncode, r.stdout[-600:]
  except subprocess.TimeoutExpired:
    return -9, 'timeout'


def main():
  ap = argparse.ArgumentParser()
  ap.add_argument('prop')
  ap.add_argument('--also', default='')
  ap.add_argument('--tier', default='quick')
  ap.add_argument('--only', type=int)
  ap.add_argument('--seed', default='0')
  ap.add_argument('--src', default='/tmp/wt')
  ap.add_argument('--offset', type=int, default=0, help='added to the change number in the kept directory name')
  a = ap.parse_args()
  src = '%s/%s/out' % (a.src, a.prop)
  try:
    agent_meta = json.load(open(os.path.join(src, 'meta.json')))
  except Exception as e:
    agent_meta = {'error': 'meta.json unreadable: %r' % e}
  n = 0
  while True:
    n += 1
    patch = os.path.join(src, 'patch%d.diff' % n)
    dm = os.path.join(src, 'demo%d.py' % n)
    if not os.path.exists(patch):
      break
    if a.only and n != a.only:
      continue
    print('=== %s change %d' % (a.prop, n))
    rec = {'property': a.prop, 'change': n, 'evaluated_at': time.strftime('%Y-%m-%d %H:%M:%S')}
    changes = agent_meta.get('changes') or []
    if len(changes) >= n:
      rec['agent_summary'] = changes[n - 1].get('summary')
      rec['needs_to_manifest'] = changes[n - 1].get('needs_to_manifest')
    files = [l[6:].strip() for l in open(patch) if l.startswith('+++ b/')]
    rec['files_changed'] = files
    if any(not f.startswith('matched_markets/methodology/') for f in files):
      print('  REJECTED: touches files outside the library source:', files)
      continue
    tree = scratch_tree()
    try:
      rc0, out0 = demo(tree, dm) if os.path.exists(dm) else (None, 'no demo')
      r = run(['git', '-C', tree, 'apply', '--whitespace=nowarn', patch])
      if r.returncode:
        print('  REJECTED: patch does not apply to /repo HEAD:', r.stdout[:300])
        continue
      rc1, out1 = demo(tree, dm) if os.path.exists(dm) else (None, 'no demo')
      rec['demo_exit_clean'] = rc0
      rec['demo_exit_patched'] = rc1
      rec['demo_output_patched'] = out1[-400:]
      print('  demo: clean exit=%s patched exit=%s' % (rc0, rc1))
      b = run(['/venv/bin/python', os.path.join(HERE, 'tools', 'run_baseline.py'), tree])
      line = [l for l in b.stdout.splitlines() if l.startswith('passed=')]
      rec['suite'] = line[0] if line else b.stdout[-200:]
      rec['suite_unchanged'] = b.returncode == 0 and 'newly_passing=13' in rec['suite']
      print('  suite:', rec['suite'], 'unchanged' if rec['suite_unchanged'] else 'CHANGED')
      confirmed = rc0 == 0 and rc1 not in (0, None) and rec['suite_unchanged']
      rec['confirmed'] = confirmed
      work = tempfile.mkdtemp(prefix='mmv-work-', dir='/tmp')
      env = dict(os.environ, MMV_REPO_DIR=tree, MMV_WORK_DIR=work, VERIF_SEED=a.seed)
      rec['checks'] = {}
      for p in [a.prop] + [x for x in a.also.split(',') if x]:
        t0 = time.time()
        c = run([os.path.join(HERE, 'check'), p, '--tier', a.tier, '--no-evidence'], env=env, cwd=HERE)
        lines = [l for l in c.stdout.splitlines() if 'conda' not in l.lower()]
        key = [l for l in lines if l.startswith(('VIOLATION', 'INCONCLUSIVE', 'held'))]
        detail = [l.strip() for l in lines if l.strip().startswith('[')][:3]
        rec['checks'][p] = {'tier': a.tier, 'exit': c.returncode, 'verdict': (key[0] if key else '')[:200],
                            'witness': [d[:300] for d in detail], 'wall_s': round(time.time() - t0)}
        print('  check %s (%s): exit=%d %s' % (p, a.tier, c.returncode, (key[0] if key else lines[-1:])))
        for d in detail[:2]:
          print('      ', d[:250])
      shutil.rmtree(work, ignore_errors=True)
      rec['caught_by'] = [p for p, v in rec['checks'].items() if v['exit'] == 1]
    finally:
      drop(tree)
    if rec.get('confirmed'):
      dst = os.path.join(HERE, 'seeded', '%s-%d' % (a.prop, n + a.offset))
      os.makedirs(dst, exist_ok=True)
      shutil.copy(patch, os.path.join(dst, 'patch.diff'))
      if os.path.exists(dm):
        shutil.copy(dm, os.path.join(dst, 'demo.py'))
      old = {}
      if os.path.exists(os.path.join(dst, 'meta.json')):
        try:
          old = json.load(open(os.path.join(dst, 'meta.json')))
        except Exception:
          old = {}
      hist = old.get('history', [])
      hist.append({k: rec[k] for k in ('evaluated_at', 'checks', 'caught_by')})
      meta = {'breaks_property': a.prop, 'source': 'independent sub-agent given only the property text and a scratch worktree',
              'summary': rec.get('agent_summary'), 'needs_to_manifest': rec.get('needs_to_manifest'),
              'files_changed': files,
              'what_was_run': ['demo.py on a clean scratch worktree of /repo HEAD (exit %s) and with patch.diff applied (exit %s)' % (rc0, rc1),
                               'pinned suite on the patched tree: %s' % rec['suite'],
                               './check <id> --tier %s with MMV_REPO_DIR on the patched scratch tree' % a.tier],
              'latest': {'caught_by': rec['caught_by'], 'checks': rec['checks']}, 'history': hist}
      json.dump(meta, open(os.path.join(dst, 'meta.json'), 'w'), indent=1)
      print('  kept as', dst, '| caught_by:', rec['caught_by'])
    else:
      print('  NOT KEPT (demo/suite confirmation failed)')
  return 0


if __name__ == '__main__':
  sys.exit(main())
