#!/venv/bin/python
"""Coverage-threshold audit: runs every quick (or thorough) check for the given seeds and reports, per MINIMA key,
the smallest observed / required ratio. A threshold with little headroom turns a sound check into an INCONCLUSIVE
(non-zero) exit on some seed, i.e. into a broken check.

Usage: minima_headroom.py [--tier quick] [--seeds 1,2,3] [--props C01,C04]
"""
import argparse, importlib, json, os, re, subprocess, sys, tempfile, shutil
HERE = os.path.dirname(os.path.dirname(os.path.abspath(__file__)))
sys.path.insert(0, HERE)


def main():
  ap = argparse.ArgumentParser()
  ap.add_argument('--tier', default='quick')
  ap.add_argument('--seeds', default='1,2,3')
  ap.add_argument('--props', default=','.join('C%02d' % i for i in range(1, 21)))
  a = ap.parse_args()
  worst = {}
  for seed in a.seeds.split(','):
    for prop in a.props.split(','):
      work = tempfile.mkdtemp(prefix='mmv-headroom-', dir='/tmp')
      env = dict(os.environ, VERIF_SEED=seed, MMV_WORK_DIR=work)
      r = subprocess.run([os.path.join(HERE, 'check'), prop, '--tier', a.tier, '--no-evidence'], env=env, cwd=HERE,
                         stdout=subprocess.PIPE, stderr=subprocess.STDOUT, text=True)
      shutil.rmtree(work, ignore_errors=True)
      line = [l for l in r.stdout.splitlines() if l.startswith(('held', 'violated', 'INCONCLUSIVE'))]
      head = line[-1] if line else r.stdout[-300:]
      m = re.search(r'counters=(\{.*\})', head)
      try:
        counters = json.loads(m.group(1)) if m else None
      except ValueError:
        counters = None
      if counters is None:
        # the runner truncates very long counter lists on its summary line: recover the complete "key": number pairs
        counters = {k: int(v) for k, v in re.findall(r'"([A-Za-z0-9_:\-]+)": (\d+)', head)}
        print('%s seed=%s: summary line truncated, %d counters recovered (missing ones are not audited)' % (prop, seed, len(counters)), flush=True)
      mm = re.search(r'nontrivial=(\d+)', head)
      mod = importlib.import_module('mmv.props.' + prop.lower())
      minima = getattr(mod, 'MINIMA', {}).get(a.tier, {})
      status = head.split(':')[0][:14]
      if status != 'held':
        print('%s seed=%s %s' % (prop, seed, head[:300]), flush=True)
      for k, need in minima.items():
        if k.startswith('set:'):
          continue
        if k != 'distinct_nontrivial' and k not in counters:
          continue
        got = int(mm.group(1)) if (k == 'distinct_nontrivial' and mm) else counters.get(k, 0)
        ratio = got / float(need) if need else 99
        key = (prop, k)
        if key not in worst or ratio < worst[key][0]:
          worst[key] = (ratio, got, need, seed)
  print('--- thresholds with less than 1.6x headroom on some seed')
  for (prop, k), (ratio, got, need, seed) in sorted(worst.items(), key=lambda kv: kv[1][0]):
    if ratio < 1.6:
      print('%s %-40s observed %6d  required %6d  (x%.2f, seed %s)' % (prop, k, got, need, ratio, seed))
  return 0


if __name__ == '__main__':
  sys.exit(main())
