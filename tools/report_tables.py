#!/venv/bin/python
"""Regenerates the self-test and seeded-change tables of DESIGN.md (between the AUTOGEN markers)."""
import glob, json, os, re
HERE = os.path.dirname(os.path.dirname(os.path.abspath(__file__)))


def selftest_table():
  try:
    rep = json.load(open(os.path.join(HERE, 'selftest_report.json')))
  except Exception:
    return '(selftest_report.json not available)\n'
  rows = ['| deliberate break | expected | suite unchanged | caught by | status |', '|---|---|---|---|---|']
  for name in sorted(rep):
    e = rep[name]
    rows.append('| %s | %s | %s | %s | %s |' % (name, ' '.join(e.get('expected', [])) or '-', 'yes' if e.get('suite_unchanged') else 'no',
                                                ' '.join(e.get('caught_by', [])) or '-', e.get('status')))
  n = len(rep)
  surv = [k for k, e in rep.items() if e.get('suite_unchanged') and e.get('expected')]
  caught = [k for k in surv if rep[k].get('caught_by')]
  rows.append('')
  rows.append('%d breaks; %d pass the pinned suite unchanged; %d of those are caught by at least one check.' % (n, len(surv), len(caught)))
  return '\n'.join(rows) + '\n'


def seeded_table():
  rows = ['| seeded change | breaks | what it needs to manifest | caught by (quick tier) |', '|---|---|---|---|']
  for d in sorted(glob.glob(os.path.join(HERE, 'seeded', '*'))):
    try:
      m = json.load(open(os.path.join(d, 'meta.json')))
    except Exception:
      continue
    need = (m.get('needs_to_manifest') or m.get('summary') or '').replace('\n', ' ').replace('|', '/')
    if len(need) > 230:
      need = need[:227] + '...'
    caught = ' '.join(m.get('latest', {}).get('caught_by', [])) or ('not judged (outside every quantifier, see 11.5)' if m.get('out_of_scope') else '**missed**')
    rows.append('| seeded/%s | %s | %s | %s |' % (os.path.basename(d), m.get('breaks_property'), need, caught))
  return '\n'.join(rows) + '\n'


def main():
  p = os.path.join(HERE, 'DESIGN.md')
  s = open(p).read()
  for tag, fn in (('SELFTEST', selftest_table), ('SEEDED', seeded_table)):
    a, b = '<!-- AUTOGEN:%s:BEGIN -->' % tag, '<!-- AUTOGEN:%s:END -->' % tag
    if a in s and b in s:
      s = s[:s.index(a) + len(a)] + '\n' + fn() + s[s.index(b):]
  open(p, 'w').write(s)


if __name__ == '__main__':
  main()
