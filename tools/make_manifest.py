#!/venv/bin/python
"""Regenerates /verif/MANIFEST.json from the table below and validates it."""
import json
import os
import sys

HERE = os.path.dirname(os.path.dirname(os.path.abspath(__file__)))

TRUSTED = ('Trusted base: numpy/pandas/scipy/statsmodels as pinned, itertools/fractions/datetime, '
           'icontract 2.7.3 where named, and the oracles in /verif/mmv. Held means: no violation on the '
           'executions listed in the evidence file; paths no generator drives are not covered.')

# id -> (technique, level text, design_ref, note)
CHECKS = {
    'C14': ('online reference-model monitor (P-HEAP sorted-list model) on enumerated + random histories and real searches',
            'Every get_result() of the real HeapDict is compared online with a sorted-list model fed by the '
            'recorded push stream: all push sequences over 2 keys x 3 values up to length 5 (quick) / 7 (thorough) '
            'x k in 0..3, random hostile histories, and every read inside real searches; search results are checked '
            'for the n_designs cap and non-increasing score order. Search cases include response units up to 2^32 (scores differing only far below 1e-8).',
            '§5 C14; §11.5'),
    'C16': ('table oracle (acceptance predicate + row->class map) over a complete enumeration of small tables and ordered subsets',
            'Every table over the 8 possible rows on <=3 (quick) / <=4 (thorough) geos, column- and index-keyed, is '
            'constructed on the real GeoEligibility and the accept/reject decision and exception type compared with the '
            'predicate; for every accepted table every ordered subset (incl. empty / None) is queried with and without '
            'indices and the seven classes checked to partition it with each geo in its row\'s class; malformed variants '
            '(missing/duplicate columns, duplicate ids, bad entries) are generated per case. A third of the enumerated tables arrive with permuted column order.',
            '§5 C16; §11.5'),
    'C17': ('three-valued domain-table oracle over a complete one-field boundary grid plus random field pairs',
            'Every field of TBRMMDesignParameters is set, from a valid base object, to every value of a boundary grid '
            '(bounds, nextafter neighbours, 0, negatives, +-inf, NaN, None, wrong types / arity / order) and the real '
            'constructor\'s accept / reject decision and exception type are compared with a table written from the '
            'class docstring (values the docstring is silent on are executed but not judged); pairs of fields, '
            'documented defaults and field-wise equality are checked as well. Equality is re-checked after a field of a compared object is assigned.',
            '§5 C17; §11.5'),
    'C20': ('independent calendar model (datetime.date) over generated day / range lists, permutation and duplication pairs',
            'Generated lists of single days and closed ranges (overlapping, nested, abutting, duplicated, crossing month / '
            'year / leap-day boundaries, years 1700-2200) are expanded by the real find_days_to_exclude + '
            'expand_time_windows and compared day-for-day with a datetime.date model (no extra, missing, duplicate or '
            'non-midnight stamp; same set for a permuted and a duplicated list); malformed entries and reversed ranges '
            'must raise ValueError. After a call the caller edits the returned objects and the same strings are expanded again (purity).',
            '§5 C20; §11.5'),
    'C11': ('three-way differential: fast count vs real generator listing vs independent itertools enumeration (exact rational ratio)',
            'For every multiset of the seven row classes over <=3 (quick) / <=4 (thorough) geos x 45 size / geo-ratio '
            'settings, and random class vectors up to 6 / 8 geos, count_max_designs() on the real object is compared with '
            'an itertools.product enumeration of control/treatment/neither assignments and (every third setting) with the '
            'distinct pairs listed by the real generators; exhaustive searches are checked to push no more designs than '
            'the count. Also: constraints that drop assignable geos before counting, and class vectors on 20-45 geos against an exact generating-function count.',
            '§5 C11; §11.5'),
    'C08': ('icontract class invariant (P-DIAG) on the live object + fresh-object history checker',
            'An icontract class invariant installed in place on the real TBRMMDiagnostics asserts after every public '
            'call, property access and setter that each non-None cache slot equals what a pristine second copy of the '
            'class computes from the current series; random histories of 1-40 writes / clears / bad writes / reads over '
            'series pools whose diagnostics differ are run and every returned value is compared with a fresh object; '
            'the invariant also stays on while the real searches re-use one diagnostics object across control groups. History operations include a re-used ndarray work buffer that is edited in place after having been assigned; thorough also runs six repository test files under the monitors.',
            '§5 C08; §11.5'),
    'C09': ('boundary recorder (exception type + innermost repo frame) on hostile input classes; logical-step bound from P-DATA events',
            'Fifteen hostile input classes (1-2 geos, no control- / treatment-eligible geo, all excluded, empty admitted '
            'set, size ranges beyond the geos, unsatisfiable ratio / share / budget, n_geos_max=2, n_test>=98, window of '
            'exactly n_test+3, iroas=0, over-full fixed groups, random) are run through both real searches on fresh '
            'objects; any exception other than ValueError, or more aggregation events than a polynomial / design-count '
            'bound, is a violation; the outcome histogram per class is reported. Classes added after seeding rounds: integer-valued float parameters (also mixed int/float ranges), a geo that starts reporting < n_test days before the end, shared data objects.',
            '§5 C09; §11.5'),
    'C15': ('reference-model monitor: pure-Python pivot (math.fsum) vs the real TBRMMData attributes and aggregates',
            'Generated long-format frames (shuffled rows, int / string IDs, ISO or datetime dates, missing cells) with '
            'eligibility tables absent / equal / subset / superset of the data are given to the real TBRMMData; df rows, '
            'columns, values, row order, geo_share, assignable, the reconciliation outcome (rows dropped vs ValueError) '
            'and, under random ordered geo_index lists and tuples, positional geo_assignments and aggregate_* over random '
            'index sets are compared with a dictionary-based pivot that does not use pandas. Also: negative and mixed-sign responses, object-dtype and mixed int/str id columns, extra partly-NaN columns.',
            '§5 C15; §11.5'),
    'C01': ('boundary recorder on both real searches + legality oracle from the generator\'s own eligibility rows; admitted-set reference model',
            'Every design returned by exhaustive_search and greedy_search on generated panels / eligibility matrices / '
            'constraint mixes (2-7 geos for both, up to 30 geos greedy-only; thorough: every multiset of row classes on '
            '<=5 geos x {none, n_geos_max, share, budget}; eligibility frames with permuted columns, subset / superset / both; '
            'a quarter of the cases share the data object with a second search object, a fifth pre-install a geo index) is '
            'checked for non-empty disjoint groups of data geos, treatment / control eligibility, no must-exclude geo, every '
            'not-excludable geo placed; geos_within_constraints is compared with an independent model of the pre-selection.',
 '§5 C01; §11.5'),
    'C02': ('boundary recorder on both real searches + constraint oracle recomputed from the raw frame (exact rationals, independent closed-form budget)',
            'Every returned design of both searches is re-evaluated from the raw input frame against each specified '
            'constraint: group sizes and |C|/|T| in exact rational arithmetic (bounds inclusive, on-bound instances '
            'generated), volume ratio, treatment share (either documented reading), required budget via an independent '
            'closed form; ranges are calibrated on the data so that constraints bind, incl. greedy with budget ranges; '
            'two-phase near-bound cases put a bound 1e-7..3e-6 inside the measured value of a previously returned design.',
 '§5 C02; §11.5'),
    'C03': ('differential monitor: real exhaustive_search vs independent brute-force design space; P-HEAP online container model',
            'For 1-6 (quick) / 1-8 (thorough) admitted geos the complete control/treatment/neither assignment space is '
            'enumerated independently, filtered by every constraint and scored with a pristine copy of the diagnostics; '
            'the real result must contain min(k, |must|) distinct feasible designs, best first, with oracle-equal scores, '
            'and no feasible non-omittable design outside it may score strictly higher than the worst returned one '
            '(omittable exactly as the statement allows); share ranges whose lower bound binds inside one group size, flat '
            'and skewed size profiles, response units 2^-20..2^30, shared data objects; a ValueError is accepted only when the '
            'oracle cannot score some admissible pair either; P-HEAP checks the container against the recorded push stream.',
 '§5 C03; §11.5'),
    'C04': ('boundary recorder + per-design pristine recomputation from the reported geo IDs (raw-frame pivot, shadow diagnostics, closed-form referee)',
            'For every design at every list position of both searches the series held by its diagnostics are compared with '
            'sums over the reported geo IDs of the raw responses on the last n_pretest_max dates, and corr, required impact, '
            'the four test outcomes, the score tuple and its last entry are compared with a recomputation from those two '
            'series alone; inputs make geo order, exclusion, n_geos_max and window truncation bite. Also: input frames with an unrelated partly-NaN column, response units 2^-20..2^30, a data object shared with a second search object or carrying a pre-installed geo index.',
            '§5 C04; §11.5'),
    'C13': ('differential monitor: real greedy_search vs real exhaustive_search (unbounded n_designs) with the brute force as referee',
            'On inputs without budget / share constraints every greedy design must belong to the full ranked set of the '
            'exhaustive search run on a fresh object, none may score above its best, and greedy must be empty when the '
            'exhaustive search is; a third of the cases also run the brute-force oracle on the exhaustive result so that a '
            'fault there is attributed correctly. Also: dyadic panels with volume ratios exactly on a bound and near-bound cases (bound 1e-7..3e-6 inside a greedy design\'s value).',
            '§5 C13; §11.5'),
    'C10': ('history checker: per-operation fresh-object replay (sequential reference model) + before/after snapshots of parameters and frame',
            'Random histories of 2-12 public calls (13 operations: constraint sets, assignments, size range, count, group '
            'listings, constraint predicate, both searches, result retrieval) are applied to one object; each normalised '
            'answer or exception type is compared with the same call on a freshly built object, search_results() with what '
            'the last search returned (also retrieved twice), and dataclasses.asdict(parameters) / the input frame are '
            'compared around every call; thorough runs under three PYTHONHASHSEEDs. Histories also contain searches of a sibling object sharing the data object, and tie panels; P-HEAP alarms (double read of the container) are consumed.',
            '§5 C10; §11.5'),
    'C12': ('metamorphic run-pair monitor on the real searches (shuffle, date shift, id type, renaming, 2^k scaling)',
            'The same search is run on an input and on a transformed copy (row shuffle, all dates shifted, int<->str IDs, '
            'order-reversing renaming applied to frame and eligibility matrix, responses and budget range x 2^k) and the two '
            'results compared position by position: groups (un-renamed) exact, discrete score entries exact, correlations '
            'equal, impact-based entries scaled; exact-tie panels are handled by a tie guard; thorough runs under three '
            'PYTHONHASHSEEDs. Also: restated (geo, date) rows under shuffling, IDs with blanks, exact impact ties at the n_geos_max cut, scale factors 2^-30..2^31.',
            '§5 C12; §11.5'),
    'C05': ('two-sided differential monitor (design-side closed form vs analysis-side TBR posterior) with an independent numpy referee; metamorphic pairs',
            'For generated pre-period series and parameters (n 3..120, n_test 1..60, sig / power in (0.01, 0.995), flevel up '
            'to 0.9995, |corr| 0.3..0.9999) the real TBRMMDiagnostics.required_impact is compared with (t_sig + t_pow) x the '
            'scale the real tbr.TBR assigns to an experiment constructed with the planning displacement, and TBR.summary on '
            'the frame carrying exactly that lift must estimate it with lower bound t_pow x scale; an independent closed form '
            'attributes disagreements; unit scaling (2^k exact), level shift, monotonicity and sign symmetry in the '
            'correlation are checked as run pairs. Half of the cases re-use one diagnostics object (decoy series first), a third edit the buffer they passed afterwards; units from 2^-50 to 2^40.',
            '§5 C05; §11.5'),
    'C06': ('reference-model monitor: closed-form TBR posterior (numpy OLS + Kerman eq. 5) vs the real tbr.TBR; layout run pairs; design-side differential',
            'For generated experiment frames (n_pre 3..59, with / without cooldown, 1-6 geos per group, unassigned geos, gap '
            'and trailing periods) every analysed day of the real causal_cumulative_distribution is compared with df = n_pre-2, '
            'the cumulative OLS-counterfactual difference and the eq.-5 scale computed from pure-Python per-date totals; '
            'shuffled / geo-split / extra-unassigned layouts must give the same posterior; every summary column (estimate, '
            'precision, lower, upper, scale, probability, echoes, report rows) is checked for random level / tails / '
            'threshold / rescale; TBRMMDiagnostics.tbrfit must agree with the last-day estimate and half-width. Also: int64 metric columns, an unrelated partly-NaN column, re-fit of a used model object, time index combined with rescale, design-side object re-use.',
            '§5 C06; §11.5'),
    'C07': ('reference-model monitor (closed-form response posterior / observed incremental cost) + determinism and scale-equivariance run pairs',
            'On generated fixed-cost and variable-cost experiment frames the real TBRiROAS.summary is checked: fixed-cost '
            'estimate and bounds against the closed-form response posterior divided by the incremental cost, incremental '
            'response bounds = iROAS bounds x cost, probability, scenario label against the zero-cost predicate; variable-cost '
            'reports must be identical for equal random_state and keep lower <= estimate <= upper; scaling cost by a and '
            'response by b (powers of two) must scale iROAS figures by b/a and leave probability and relative lift unchanged. Also: mixed frames where only one group spends (label judged), cost scales 1e-6..1e3, int64 columns, re-fit of a used model object.',
            '§5 C07; §11.5'),
    'C18': ('reference-model monitor (closed-form posterior, numpy OLS) on the real effect-series report; model-based classifier for raises',
            'On generated experiment frames with cooldown (both metrics, both cost scenarios, tails, levels, control shapes, '
            'optional dates outside the three periods) the real estimate_pointwise_and_cumulative_effect must succeed and its '
            'three series are checked date by date: lower <= estimate <= upper (re-checked independently of the container), '
            'counterfactual + pointwise = observed treatment series, pre-period pointwise = OLS residuals, cumulative estimate '
            'and bounds = closed-form incremental effect and posterior quantiles. A container ValueError is accepted as the '
            'known first-difference-bounds finding only when the closed-form cumulative scale decreases on some day. Also: int64 metric columns, re-fit of a used model object, treatment-only pre-period spend (degenerate cost regression judged on residual / sum clauses).',
            '§5 C18; §11.5'),
    'C19': ('set-arithmetic oracle on the raw frame + own group-by; row-permutation run pair',
            'On generated experiment frames (planted or absent noisy geos and outlier dates, <4 geos, custom column names and '
            'labels, unassigned geos, shuffled rows, shifted index) the real TBRDiagnostics.fit is run; get_data() must equal '
            'the input rows minus the rows of the reported noisy geos and outlier dates (order, columns and index included), '
            'get_analysis_data() the per-date control / treatment totals of that screened data, the caller frame must be '
            'unchanged and a row permutation must report the same results. Also: non-unique row labels, re-fit of a used object, edits of the returned frame followed by another read; a whole-group ValueError is accepted only if the reported removals really empty a group.',
            '§5 C19; §11.5'),
}

NOT_YET = {}

NOT_APPLICABLE = []


# workload classes added after seeding rounds 5 and 6 (DESIGN 11.5), appended to the level text
ADDENDA = {
    'C01': 'Also: Unicode geo ids in decomposed and precomposed spelling; an eligibility table without rows; searches after the caller edited the sets returned by the geo-level queries; an earlier sibling object differing in one statistical setting built on the same data object.',
    'C02': 'Also: a nearly collinear control / treatment pair with the lower budget bound at twice its budget (each bound compared relative to its own magnitude); share ranges placed strictly between the two documented readings of a legal group; panels whose level is 1e7-1e9 times their variation (tolerance of the budget oracle scaled accordingly).',
    'C03': 'Also: a larger geo outside the search with the budget bound between neighbouring single-geo budgets; sub-groups failing the share range never license an omission; constructed prune-trap panels; scaled-copy panels whose best designs differ by a few 1e-10 (tie tolerance 1e-11 there); searches after the caller edited earlier results in place.',
    'C04': 'Also: min_corr placed 2e-8..4e-6 above a returned design\'s correlation; a constant control series must fail the Brownian-bridge test; an independent plain-numpy referee of the four diagnostic tests on every reported design; sig_level < 0.5; hourly tz-aware stamps across a DST change; searches after the caller edited earlier results in place.',
    'C05': 'Also: small-integer Walsh-function series with a correlation of exactly 0.0.',
    'C06': 'Also: a bystander geo whose period labels run ahead; tbrfit after buffer recycling and after the diagnostic tests were read; bare-int period label 0; same frame object edited in place and re-fitted; lagging period label under two row orders; integer / text / date-object date labels; int64 micro-unit metrics.',
    'C07': 'Also: treatment spend during cooldown; pre-period spend of geos outside the two groups; extreme opposite units (daily cost totals kept below 1e12).',
    'C08': 'Also: a control series that fits the treatment series exactly.',
    'C09': 'Also: exactly-zero correlations, more than 64 geos in a small exhaustive search, eligibility table covering a subset of the data under a binding n_geos_max.',
    'C10': 'Also: reference = plain fresh build while the object under test may sit on a data object used before by a sibling with another flevel; caller edits of returned sets; an unrelated object on other data used in between; direct constraint queries.',
    'C11': 'Also: listings interleaved with queries of a sibling object on the same data object.',
    'C12': 'Also: upper share bound set bit-for-bit on a library-computed share; day/month/year text labels; twin geos under int vs str IDs (ties only ambiguous under renaming); scale factors 2^-75 .. 2^270.',
    'C13': 'Also: panels with geos of negative mean under a volume tolerance; flat treatment-fixed geo, must-include overflow of n_geos_max, near-twin and low-noise panels compared at the caller\'s own n_designs, searches after caller edits of earlier results.',
    'C14': 'Also: zero / negative / empty items and numpy-integer capacities.',
    'C15': 'Also: a second live data object over the same geos; a geo without any usable observation; the caller\'s eligibility object compared before / after construction.',
    'C16': 'Also: pairs of mutually incomparable illegal entries; multi-level and foreign named indexes.',
    'C17': 'Also: numpy doubles judged as floats, lists judged as non-tuples, wrong-typed values equal to defaults, far-apart values with equal hashes in the equality clause, a caller subclass.',
    'C18': 'Also: a test / cooldown date with every value missing; integer / yyyymmdd / text / date-object date labels and int64 micro-unit metrics.',
    'C19': 'Also: third arm reporting longer than the experiment groups, categorical columns, a second metric named as target, missing responses in the test period.',
    'C20': 'Also: years 2-999, re-expansion of sub-lists of already expanded parsed windows, blanks inside a date field.',
}


def main():
  props = [json.loads(l) for l in open(os.path.join(HERE, 'properties.jsonl'))]
  ids = [p['id'] for p in props]
  checks = []
  for pid in ids:
    if pid not in CHECKS:
      continue
    technique, text, ref = CHECKS[pid]
    if ADDENDA.get(pid):
      text = text + ' ' + ADDENDA[pid]
    checks.append({
        'property_id': pid,
        'quick_cmd': './check %s --tier quick' % pid,
        'thorough_cmd': './check %s --tier thorough' % pid,
        'evidence_file': 'evidence/%s.json' % pid,
        'replay_cmd_template': './check %s --replay {path}' % pid,
        'engine': 'mmv',
        'level_claimed': {'category': 'exploration', 'text': text, 'design_ref': 'DESIGN.md ' + ref},
        'level_note': TRUSTED,
        'technique': 'runtime monitoring: ' + technique,
    })
  na = list(NOT_APPLICABLE)
  for pid in ids:
    if pid not in CHECKS and pid not in {e['property_id'] for e in na}:
      na.append({'property_id': pid,
                 'reason': NOT_YET.get(pid, 'check not built yet in this round (planned in DESIGN.md §5); not claimed')})
  manifest = {
      'version': 1,
      'setup_cmd': './setup.sh',
      'hooks': {
          'guard': 'MMV_MONITORS',
          'enable': 'no source hooks in /repo: probes are installed from the harness on the imported classes '
                    '(icontract invariants and recorder wrappers); MMV_MONITORS=0 turns them off; checks import '
                    "the tree at MMV_REPO_DIR (default /repo) at run time, so there is no build step",
          'baseline_off_cmd': 'cd /repo && /venv/bin/python -m pytest -ra -q -p no:cacheprovider --timeout=900 '
                              '--continue-on-collection-errors',
          'source_commits': [],
          'add_only': True,
      },
      'engines': [{'name': 'mmv', 'path': 'mmv/', 'serves_properties': sorted(CHECKS),
                   'kind_free_text': 'runtime monitors (probes on real classes), reference-model and differential '
                                     'oracles, history checkers; sharded over 16 worker processes'}],
      'checks': checks,
      'not_applicable': na,
      'notes': 'All checks: exit 0 held / 1 violated (VIOLATION line + replay file) / 2 inconclusive. '
               'Known findings: known_findings.json (mechanism-keyed). See DESIGN.md.',
  }
  path = os.path.join(HERE, 'MANIFEST.json')
  with open(path, 'w') as f:
    json.dump(manifest, f, indent=1)
  try:
    import jsonschema  # pylint: disable=g-import-not-at-top
    schema = json.load(open('/root/.vp/MANIFEST.schema.json'))
    jsonschema.validate(manifest, schema)
    print('MANIFEST.json valid; %d checks, %d not claimed' % (len(checks), len(na)))
  except ImportError:
    print('jsonschema not available; wrote MANIFEST.json unvalidated')


if __name__ == '__main__':
  sys.exit(main())
