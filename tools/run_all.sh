#!/bin/bash
# Runs every check of one tier in sequence; prints one line per property. Usage: tools/run_all.sh [quick|thorough] [seed]
cd "$(dirname "$0")/.."
tier=${1:-quick}; seed=${2:-0}
rc_all=0
for i in 01 02 03 04 05 06 07 08 09 10 11 12 13 14 15 16 17 18 19 20; do
  s=$(date +%s)
  out=$(VERIF_SEED=$seed ./check C$i --tier $tier 2>&1 | grep -v -i conda); rc=$?
  last=$(echo "$out" | grep -E "^(held|violated|INCONCLUSIVE|VIOLATION)" | tail -1 | cut -c1-150)
  kf=$(echo "$out" | grep -c "^KNOWN-FINDING")
  echo "C$i rc=$(echo "$out" | grep -q '^held' && echo 0 || echo X) kf=$kf $(( $(date +%s) - s ))s  $last"
  echo "$out" | grep -q '^held' || rc_all=1
done
exit $rc_all
