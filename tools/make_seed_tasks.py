#!/venv/bin/python
"""Prepares a seeding round: one scratch worktree of /repo HEAD per property under <dir>/<Cxx> with out/TASK.md.

The task text holds ONLY the property's title / statement / quantifier, the mechanisms earlier rounds already used
for that property (one-line summaries from seeded/<id>/meta.json - so that the agent looks elsewhere), and
practicalities. Nothing else from /verif is shown to the agent.

Usage: make_seed_tasks.py <round-number> <dir> [C01,C02,...]
"""
import glob, json, os, subprocess, sys

HERE = os.path.dirname(os.path.dirname(os.path.abspath(__file__)))

TMPL = '''# Task: seed a subtle, realistic defect that breaks ONE stated property (round {round})

You work ONLY inside the git worktree `{wt}` — a checkout of google/matched_markets, a pure-Python
library (numpy / pandas / scipy / statsmodels) for designing and analysing geo experiments with Time Based
Regression (TBR) and a greedy / exhaustive matched-markets search. Library code is under
`matched_markets/methodology/`, its tests under `matched_markets/tests/`. Do NOT read or write anything under
/verif or /repo, and do not touch other directories under /tmp. There is no network.
IMPORTANT: never use `git stash` (shared between worktrees); use `git diff > out/x.diff`, `git checkout -- .`,
`git apply out/x.diff`. Keep every reply short; write files with the editing tools; never paste large outputs.

## The property (this is all you are told about what is being checked)

**{pid} — {title}**

{statement}

Quantified over: {quant}

## Already tried in earlier rounds (do NOT repeat these mechanisms or close variants of them)

{tried}

Also out of bounds: relying on the *caller assigning to the parameter object* or *re-scoring a returned design* between
two calls. Everything else is fair game: re-using one object for several calls, sharing a data object between search
objects, unusual-but-legal inputs, dtypes, ties, values on or next to bounds, label formats, missing data, object
re-fits, caller-side edits of returned or passed-in containers / arrays, huge or tiny units, tz-aware dates, etc.

## What to produce

A change to the *library source* (files under `matched_markets/methodology/`; never the tests) such that

1. the package still imports and the **existing test suite gives exactly the same result as before your change**
   (same set of failing tests — 7 tests already fail on the unchanged worktree; record that set first);
2. the property above is **violated** for some inputs / call sequences;
3. the change is **realistic** — a bug a developer could plausibly introduce or leave behind, not sabotage;
4. it is **subtle and hard to hit** by a harness that already throws random panels, eligibility mixes, constraint
   mixes, ties, near-bound values, object re-use, odd dtypes, extreme units, exact zero correlations, integer / text
   date labels, categorical columns, caller edits of everything returned, several live objects at once at the code.
   Look for what such a harness would still miss: conditions involving three things at once, behaviour that depends
   on the *order* of rows / geos / dict or set iteration, off-by-one at a rarely reached size, a branch only taken for
   one specific eligibility class combination, numerical thresholds, an interaction between two public entry points,
   locale / string formatting, version-dependent pandas / numpy behaviour.

Please deliver **two different** such changes (different mechanism AND site from each other and from the list above),
each independent of the other (each applies on its own to the unchanged worktree).

## Deliverables (write them under `{wt}/out/`)

* `patch1.diff`, `patch2.diff` — `git diff` of the library source for each change (apply with `git apply`).
* `demo1.py`, `demo2.py` — a small self-contained program per change that **exits 0 on the unchanged code and exits
  non-zero (printing what went wrong) with that change applied**; it must demonstrate a violation of the property as
  stated. Run it as `cd {wt} && PYTHONPATH={wt} /venv/bin/python -W ignore out/demoN.py`.
* `meta.json` — `{{"property": "{pid}", "changes": [{{"patch": "patch1.diff", "demo": "demo1.py", "summary": "...",
  "needs_to_manifest": "...", "files_changed": [...], "tests_result_before": "...", "tests_result_after": "..."}}, ...]}}`

Leave the worktree clean at the end (`git checkout -- .` after saving the diffs; keep `out/`).

## Practicalities

* Interpreter: `/venv/bin/python` (3.12; pandas 3, numpy 2). The package is installed in *editable mode pointing at a
  different directory*, so you MUST set `PYTHONPATH={wt}` for anything you run, otherwise you test the wrong tree.
* Run the suite with
  `cd {wt} && PYTHONPATH={wt} /venv/bin/python -m pytest -q -p no:cacheprovider --timeout=900 matched_markets/tests 2>&1 | tail -15`
  (30-90 s). Run it on the unchanged worktree first, and after each change.
* statsmodels prints warnings; use `-W ignore` and ignore a `conda` warning line that every shell command prints.
* Confirm each demo both ways (with and without the change) before finishing. Report briefly what you did.
'''


def main():
  rnd, root = sys.argv[1], sys.argv[2]
  only = set(sys.argv[3].split(',')) if len(sys.argv) > 3 else None
  props = {}
  for line in open(os.path.join(HERE, 'properties.jsonl')):
    p = json.loads(line)
    props[p['id']] = p
  os.makedirs(root, exist_ok=True)
  for pid, p in sorted(props.items()):
    if only and pid not in only:
      continue
    wt = os.path.join(root, pid)
    if not os.path.isdir(wt):
      r = subprocess.run(['git', '-C', '/repo', 'worktree', 'add', '-q', '--detach', wt, 'HEAD'])
      assert r.returncode == 0
    os.makedirs(os.path.join(wt, 'out'), exist_ok=True)
    tried = []
    for d in sorted(glob.glob(os.path.join(HERE, 'seeded', pid + '-*'))):
      try:
        m = json.load(open(os.path.join(d, 'meta.json')))
      except Exception:  # pylint: disable=broad-except
        continue
      summ = ' '.join(str(m.get('summary', '')).split())
      files = ', '.join(os.path.basename(f) for f in (m.get('files_changed') or []))
      tried.append('* %s (files: %s)' % (summ[:420], files))
    text = TMPL.format(round=rnd, wt=wt, pid=pid, title=p['title'], statement=p['statement'],
                       quant=p['quantifier']['text'], tried='\n'.join(tried) or '(none)')
    open(os.path.join(wt, 'out', 'TASK.md'), 'w').write(text)
    print(pid, len(tried), 'earlier mechanisms listed')


if __name__ == '__main__':
  main()
