#!/venv/bin/python
"""Runs checks against a scratch copy of /repo with a change applied (never touches /repo itself).

  try_patch.py --patch FILE [--props C01,C03 | --all] [--tier quick] [--no-baseline] [--seed N]
  try_patch.py --replace FILE::OLD::NEW ...      (string replacement instead of a diff)

Prints per property: exit code and the VIOLATION / INCONCLUSIVE / held line. The scratch worktree is
created with mktemp under /tmp and removed at the end.
"""
import argparse, json, os, shutil, subprocess, sys, tempfile, time

HERE = os.path.dirname(os.path.dirname(os.path.abspath(__file__)))
ALL = ['C%02d' % i for i in range(1, 21)]


def run(cmd, **kw):
  return subprocess.run(cmd, stdout=subprocess.PIPE, stderr=subprocess.STDOUT, text=True, **kw)


def main():
  ap = argparse.ArgumentParser()
  ap.add_argument('--patch')
  ap.add_argument('--replace', action='append', default=[])
  ap.add_argument('--replace-json', help='file holding [[path, old, new], ...]')
  ap.add_argument('--props', default='')
  ap.add_argument('--all', action='store_true')
  ap.add_argument('--tier', default='quick')
  ap.add_argument('--seed', default='0')
  ap.add_argument('--no-baseline', action='store_true')
  ap.add_argument('--json')
  a = ap.parse_args()
  props = ALL if a.all else [p for p in a.props.split(',') if p]
  scratch = tempfile.mkdtemp(prefix='mmv-scratch-', dir='/tmp')
  os.rmdir(scratch)
  out = {'patch': a.patch, 'results': {}}
  try:
    r = run(['git', '-C', '/repo', 'worktree', 'add', '--detach', scratch, 'HEAD'])
    if r.returncode:
      print(r.stdout); return 2
    if a.patch:
      r = run(['git', '-C', scratch, 'apply', '--whitespace=nowarn', os.path.abspath(a.patch)])
      if r.returncode:
        print('PATCH DOES NOT APPLY:', r.stdout); out['applies'] = False
        return 3
    triples = [spec.split('::') for spec in a.replace]
    if a.replace_json:
      triples += json.load(open(a.replace_json))
    for f, old, new in triples:
      path = os.path.join(scratch, f)
      s = open(path).read()
      if old not in s:
        print('REPLACE TARGET NOT FOUND in', f); return 3
      open(path, 'w').write(s.replace(old, new, 1))
    out['applies'] = True
    if not a.no_baseline:
      r = run(['/venv/bin/python', os.path.join(HERE, 'tools', 'run_baseline.py'), scratch])
      line = [l for l in r.stdout.splitlines() if l.startswith('passed=')]
      out['baseline'] = line[0] if line else r.stdout[-300:]
      out['baseline_ok'] = r.returncode == 0 and 'newly_passing=13' in (line[0] if line else '')
      print('baseline:', out['baseline'], '(suite unchanged)' if out['baseline_ok'] else '(SUITE RESULT CHANGED)')
      for l in r.stdout.splitlines():
        if 'STABLE TEST NOT PASSING' in l:
          print('  ', l.strip())
    work = tempfile.mkdtemp(prefix='mmv-work-', dir='/tmp')
    env = dict(os.environ, MMV_REPO_DIR=scratch, MMV_WORK_DIR=work, VERIF_SEED=a.seed)
    for p in props:
      t0 = time.time()
      r = run([os.path.join(HERE, 'check'), p, '--tier', a.tier, '--no-evidence'], env=env, cwd=HERE)
      lines = [l for l in r.stdout.splitlines() if 'conda' not in l.lower()]
      key = [l for l in lines if l.startswith(('VIOLATION', 'INCONCLUSIVE', 'held', 'violated'))]
      detail = [l for l in lines if l.strip().startswith('[')][:3]
      out['results'][p] = {'rc': r.returncode, 'lines': key, 'detail': detail}
      print('%s rc=%d %.0fs %s' % (p, r.returncode, time.time() - t0, (key[0] if key else lines[-1:] )))
      for d in detail:
        print('     ', d[:260])
    shutil.rmtree(work, ignore_errors=True)
  finally:
    run(['git', '-C', '/repo', 'worktree', 'remove', '--force', scratch])
    shutil.rmtree(scratch, ignore_errors=True)
    run(['git', '-C', '/repo', 'worktree', 'prune'])
  if a.json:
    json.dump(out, open(a.json, 'w'), indent=1)
  return 0


if __name__ == '__main__':
  sys.exit(main())
