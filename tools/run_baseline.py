#!/venv/bin/python
"""Runs the pinned baseline suite on a tree (default /repo) with monitors OFF and compares with BASELINE.json.
Usage: run_baseline.py [repo_dir]   exit 0 iff every stable_pass test passes."""
import json, os, subprocess, sys, tempfile
import xml.etree.ElementTree as ET
repo = os.path.abspath(sys.argv[1]) if len(sys.argv) > 1 else '/repo'
base = json.load(open('/root/.vp/BASELINE.json'))
with tempfile.TemporaryDirectory() as td:
  xml = os.path.join(td, 'j.xml')
  env = dict(os.environ, MMV_MONITORS='0', PYTHONPATH=repo)
  p = subprocess.run(['/venv/bin/python', '-m', 'pytest', '-q', '-p', 'no:cacheprovider', '--timeout=900',
                      '--continue-on-collection-errors', '-x' if False else '-q', '--junitxml=' + xml] + sys.argv[2:],
                     cwd=repo, env=env, stdout=subprocess.PIPE, stderr=subprocess.STDOUT, text=True)
  passed = set()
  failed = set()
  for tc in ET.parse(xml).getroot().iter('testcase'):
    name = '%s::%s' % (tc.get('classname'), tc.get('name'))
    if any(ch.tag in ('failure', 'error', 'skipped') for ch in tc):
      failed.add(name)
    else:
      passed.add(name)
missing = [t for t in base['stable_pass'] if t not in passed]
newly = [t for t in passed if t not in set(base['stable_pass'])]
print('passed=%d failed=%d stable_missing=%d newly_passing=%d' % (len(passed), len(failed), len(missing), len(newly)))
for t in missing[:40]:
  print('  STABLE TEST NOT PASSING:', t)
for t in newly[:40]:
  print('  newly passing:', t)
sys.exit(1 if missing else 0)
