#!/venv/bin/python
"""Re-runs every kept seeded change (/verif/seeded/<id>/patch.diff) against the current checks.

For each: scratch worktree of /repo HEAD, apply the patch (plain, then --3way), confirm the demonstration still
fails with it, run the owning property's check (quick by default) with MMV_REPO_DIR on the scratch tree, update
meta.json['latest'] and append to its history. Usage: seeded_regress.py [--tier quick] [--only C03-1,C12-2] [--seed N]
"""
import argparse, glob, json, os, shutil, subprocess, sys, tempfile, time
HERE = os.path.dirname(os.path.dirname(os.path.abspath(__file__)))


def run(cmd, **kw):
  return subprocess.run(cmd, stdout=subprocess.PIPE, stderr=subprocess.STDOUT, text=True, **kw)


def main():
  ap = argparse.ArgumentParser()
  ap.add_argument('--tier', default='quick')
  ap.add_argument('--only', default='')
  ap.add_argument('--seed', default='0')
  ap.add_argument('--also', default='')
  a = ap.parse_args()
  only = set(x for x in a.only.split(',') if x)
  summary = []
  for d in sorted(glob.glob(os.path.join(HERE, 'seeded', '*'))):
    name = os.path.basename(d)
    if only and name not in only:
      continue
    meta = json.load(open(os.path.join(d, 'meta.json')))
    prop = meta['breaks_property']
    tree = tempfile.mkdtemp(prefix='mmv-scratch-', dir='/tmp')
    os.rmdir(tree)
    run(['git', '-C', '/repo', 'worktree', 'add', '--detach', tree, 'HEAD'])
    try:
      r = run(['git', '-C', tree, 'apply', '--whitespace=nowarn', os.path.join(d, 'patch.diff')])
      if r.returncode:
        r = run(['git', '-C', tree, 'apply', '--3way', '--whitespace=nowarn', os.path.join(d, 'patch.diff')])
      if r.returncode:
        print('%-8s PATCH NO LONGER APPLIES to /repo HEAD: %s' % (name, r.stdout.strip()[:200]))
        summary.append((name, 'needs-rebase'))
        continue
      env = dict(os.environ, PYTHONPATH=tree, MPLBACKEND='Agg')
      dm = run(['/venv/bin/python', '-W', 'ignore', os.path.join(d, 'demo.py')], cwd=tree, env=env, timeout=1200)
      work = tempfile.mkdtemp(prefix='mmv-work-', dir='/tmp')
      env = dict(os.environ, MMV_REPO_DIR=tree, MMV_WORK_DIR=work, VERIF_SEED=a.seed)
      checks = {}
      # meta['judged_by']: the properties whose checks own the behaviour the change breaks, when that is not (only)
      # the property the seeding agent was given (e.g. a change seeded for C11 that mutates the parameter object is a
      # C10 / C17 matter)
      for p in [prop] + [x for x in meta.get('judged_by', []) if x != prop] + [x for x in a.also.split(',') if x]:
        t0 = time.time()
        c = run([os.path.join(HERE, 'check'), p, '--tier', a.tier, '--no-evidence'], env=env, cwd=HERE)
        lines = [l for l in c.stdout.splitlines() if 'conda' not in l.lower()]
        key = [l for l in lines if l.startswith(('VIOLATION', 'INCONCLUSIVE', 'held'))]
        detail = [l.strip() for l in lines if l.strip().startswith('[')][:2]
        checks[p] = {'tier': a.tier, 'seed': int(a.seed), 'exit': c.returncode, 'verdict': (key[0] if key else '')[:200],
                     'witness': [x[:300] for x in detail], 'wall_s': round(time.time() - t0)}
      shutil.rmtree(work, ignore_errors=True)
      caught = [p for p, v in checks.items() if v['exit'] == 1]
      meta['latest'] = {'caught_by': caught, 'checks': checks, 'demo_exit_with_patch': dm.returncode,
                        'repo_head': run(['git', '-C', '/repo', 'log', '-1', '--format=%h']).stdout.strip()}
      meta.setdefault('history', []).append({'evaluated_at': time.strftime('%Y-%m-%d %H:%M:%S'), 'caught_by': caught,
                                             'tier': a.tier, 'seed': int(a.seed)})
      json.dump(meta, open(os.path.join(d, 'meta.json'), 'w'), indent=1)
      print('%-8s demo_exit=%s caught_by=%s %s' % (name, dm.returncode, caught, '' if caught else '  <-- MISSED'), flush=True)
      summary.append((name, 'caught' if caught else 'MISSED'))
    finally:
      run(['git', '-C', '/repo', 'worktree', 'remove', '--force', tree])
      shutil.rmtree(tree, ignore_errors=True)
  run(['git', '-C', '/repo', 'worktree', 'prune'])
  n = len(summary)
  print('%d seeded changes: %d caught, %d missed, %d need rebase' % (
      n, sum(s == 'caught' for _, s in summary), sum(s == 'MISSED' for _, s in summary), sum(s == 'needs-rebase' for _, s in summary)))
  return 0


if __name__ == '__main__':
  sys.exit(main())
